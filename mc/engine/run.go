package engine

import (
	"bufio"
	"encoding/json"
	"fmt"
	"hash/fnv"
	"os"
	"os/exec"
	"path/filepath"
	"runtime"
	"runtime/debug"
	"sort"
	"strconv"
	"strings"
	"sync"
	"syscall"
	"time"
)

// Finding is one way in which one case violates the property.
type Finding struct {
	Class  string `json:"class"`  // class key: where it fails, without the incidental rest of the case
	What   string `json:"what"`   // one line for humans
	Detail any    `json:"detail,omitempty"`
}

// Result of running one case.
type Result struct {
	Findings   []Finding
	Outcome    string // coarse observed outcome (for the vacuity count)
	NonTrivial bool
	Skipped    bool // case not applicable (counted, not evaluated)
	Steps      int64 // transitions executed on the implementation by this case (state-space checks)
}

// Spec describes a check whose cases are independent of each other.
type Spec[T any] struct {
	ID    string
	Level string // evidence level
	Rule  string // how cases are enumerated and what makes one non-trivial
	// Gen enumerates every case of the tier deterministically.
	Gen func(tier string, emit func(T))
	// Key is a canonical rendering used for sharding and distinct counting.
	Key func(T) string
	// Run executes one case against the real code.
	Run func(T) Result
	// Init runs once per process before Gen/Run (optional).
	Init func(tier string)
	// Extra lets a check add keys to the evidence coverage object (parent side, optional).
	Extra func(tier string) map[string]any
	// Assumptions for the evidence file.
	Assumptions []string
	// Workers overrides the number of worker processes (0 = NumCPU).
	Workers int
	// Deadline is the backstop for the whole tier (0 = default).
	Deadline map[string]time.Duration
	// SoftDeadline (per tier): a worker that has been running for longer starts no further case; the cases left are counted
	// and reported as a cap (exhaustive=false), the check still exits by its findings
	SoftDeadline map[string]time.Duration
	// Prepare runs once in the parent before the workers are started (e.g. to run a model
	// checker and publish its output through an environment variable).
	Prepare func(tier string, rep *Report)
	// Finish lets a check derive evidence keys from the aggregated report (optional).
	Finish func(rep *Report)
	// Custom, if set, replaces Gen/Run sharding entirely (engines like xstate, TLC, sched).
	Custom func(tier string, rep *Report)
	// ReplayCustom replays a case stored by a Custom check.
	ReplayCustom func(raw json.RawMessage) []Finding
}

type erased interface {
	id() string
	worker(tier string, shard, n int, out string, skipKey string)
	parent(tier string) int
	replay(path string) int
}

var registry = map[string]erased{}

// Register adds a check to the vf binary.
func Register[T any](s Spec[T]) { registry[s.ID] = &s }

func (s *Spec[T]) id() string { return s.ID }

// ---------------------------------------------------------------------------
// worker side

type classAgg struct {
	Class string          `json:"class"`
	Count int64           `json:"count"`
	Idx   int64           `json:"idx"` // generation index of the witness (lowest seen)
	What  string          `json:"what"`
	Case  json.RawMessage `json:"case"`
	Detail any            `json:"detail,omitempty"`
}

type workerOut struct {
	Shard       int               `json:"shard"`
	Generated   int64             `json:"generated"`
	Evaluations int64             `json:"evaluations"`
	Distinct    int64             `json:"distinct"`
	NonTrivial  int64             `json:"nontrivial"`
	Skipped     int64             `json:"skipped"`
	Outcomes    map[string]int64  `json:"outcomes"`
	Classes     map[string]*classAgg `json:"classes"`
	Samples     []json.RawMessage `json:"samples"`
	Done        bool              `json:"done"`
	Steps       int64             `json:"steps"`
	Emitted     int64             `json:"emitted"` // every case the generator produced (all shards): must agree across workers
	EmitHash    uint64            `json:"emit_hash"` // order-sensitive hash of every emitted key: must agree across workers
	NotRun      int64             `json:"not_run"`   // cases of this shard left out by the soft deadline
}

const journalSize = 1 << 20

func hashKey(k string) uint64 {
	h := fnv.New64a()
	h.Write([]byte(k))
	return h.Sum64()
}

// SafeRun runs f and converts a panic into a finding of class prefix+top frame.
func SafeRun(f func() Result) (res Result) {
	defer func() {
		if r := recover(); r != nil {
			st := string(debug.Stack())
			res = Result{Outcome: "panic", NonTrivial: true, Findings: []Finding{{
				Class:  "panic@" + PanicSite(st) + "|" + panicKind(r),
				What:   fmt.Sprintf("panic: %v", trunc(fmt.Sprint(r), 200)),
				Detail: trunc(st, 3000),
			}}}
		}
	}()
	return f()
}

func panicKind(r any) string {
	s := fmt.Sprint(r)
	if strings.HasPrefix(s, FuelSentinel) {
		return "fuel"
	}
	// keep only the generic part of runtime error texts
	for _, p := range []string{"index out of range", "slice bounds out of range", "nil pointer dereference", "negative shift amount", "integer divide by zero", "interface conversion", "makeslice"} {
		if strings.Contains(s, p) {
			return p
		}
	}
	return trunc(s, 60)
}

// FuelSentinel prefixes the panic value raised when the fuel shim runs out.
const FuelSentinel = "VERIF-FUEL-EXHAUSTED"

// PanicSite extracts the first falco frame (function name) below the panic from a stack dump.
func PanicSite(stack string) string {
	lines := strings.Split(stack, "\n")
	seenPanic := false
	for i := 0; i < len(lines); i++ {
		l := lines[i]
		if strings.HasPrefix(l, "panic(") {
			seenPanic = true
			continue
		}
		if !seenPanic {
			continue
		}
		if strings.HasPrefix(l, "\t") {
			continue
		}
		if strings.Contains(l, "zzverif/") || strings.HasPrefix(l, "runtime.") || strings.HasPrefix(l, "runtime/") {
			continue
		}
		if j := strings.LastIndex(l, "("); j > 0 {
			l = l[:j]
		}
		l = strings.TrimPrefix(l, "github.com/ysugimoto/falco/v2/")
		return l
	}
	return "?"
}

func trunc(s string, n int) string {
	if len(s) > n {
		return s[:n] + "…"
	}
	return s
}

func (s *Spec[T]) worker(tier string, shard, n int, out string, skipKey string) {
	debug.SetMaxStack(256 << 20)
	if s.Init != nil {
		s.Init(tier)
	}
	jf, err := os.OpenFile(out+".journal", os.O_RDWR|os.O_CREATE, 0o644)
	if err != nil {
		panic(err)
	}
	jf.Truncate(journalSize)
	jm, err := syscall.Mmap(int(jf.Fd()), 0, journalSize, syscall.PROT_READ|syscall.PROT_WRITE, syscall.MAP_SHARED)
	if err != nil {
		panic(err)
	}
	// skip keys: cases already attributed a fatal crash in an earlier incarnation of this shard
	skip := map[string]bool{}
	if skipKey != "" {
		if b, err := os.ReadFile(skipKey); err == nil {
			var ks []string
			json.Unmarshal(b, &ks)
			for _, k := range ks {
				skip[k] = true
			}
		}
	}
	wo := workerOut{Shard: shard, Outcomes: map[string]int64{}, Classes: map[string]*classAgg{}}
	seen := map[uint64]struct{}{}
	var idx int64
	started := time.Now()
	soft := s.SoftDeadline[tier]
	s.Gen(tier, func(c T) {
		idx++
		key := s.Key(c)
		h := hashKey(key)
		wo.EmitHash = wo.EmitHash*1099511628211 ^ h
		if int(h%uint64(n)) != shard {
			return
		}
		wo.Generated++
		if _, dup := seen[h]; dup {
			return
		}
		seen[h] = struct{}{}
		if skip[key] {
			return
		}
		if soft > 0 && time.Since(started) > soft {
			wo.NotRun++
			return
		}
		// journal: length-prefixed key, written before the case runs
		kb := []byte(key)
		if len(kb) > journalSize-16 {
			kb = kb[:journalSize-16]
		}
		copy(jm[8:], kb)
		putU64(jm[0:8], uint64(len(kb)))
		res := SafeRun(func() Result { return s.Run(c) })
		putU64(jm[0:8], 0)
		if res.Skipped {
			wo.Skipped++
			return
		}
		wo.Evaluations++
		wo.Steps += res.Steps
		if res.NonTrivial {
			wo.NonTrivial++
		}
		if len(wo.Outcomes) < 5000 || wo.Outcomes[res.Outcome] > 0 {
			wo.Outcomes[res.Outcome]++
		}
		if len(wo.Samples) < 3 || (wo.Evaluations&(wo.Evaluations-1)) == 0 && len(wo.Samples) < 12 {
			if b, err := json.Marshal(c); err == nil && len(b) < 4000 {
				wo.Samples = append(wo.Samples, b)
			}
		}
		for _, f := range res.Findings {
			a := wo.Classes[f.Class]
			if a == nil {
				if len(wo.Classes) >= 20000 {
					continue
				}
				b, _ := json.Marshal(c)
				a = &classAgg{Class: f.Class, Idx: idx, What: f.What, Case: b, Detail: f.Detail}
				wo.Classes[f.Class] = a
			}
			a.Count++
		}
	})
	wo.Distinct = int64(len(seen))
	wo.Emitted = idx
	wo.Done = true
	b, _ := json.Marshal(wo)
	if err := os.WriteFile(out, b, 0o644); err != nil {
		panic(err)
	}
}

func putU64(b []byte, v uint64) {
	for i := 0; i < 8; i++ {
		b[i] = byte(v >> (8 * i))
	}
}
func getU64(b []byte) uint64 {
	var v uint64
	for i := 0; i < 8; i++ {
		v |= uint64(b[i]) << (8 * i)
	}
	return v
}

// ---------------------------------------------------------------------------
// parent side

// Report accumulates what a run covered; Custom checks fill it directly.
type Report struct {
	mu          sync.Mutex
	Property    string
	Tier        string
	Level       string
	Rule        string
	Evaluations int64
	Distinct    int64
	NonTrivial  int64
	Skipped     int64
	Outcomes    map[string]int64
	Classes     map[string]*classAgg
	Samples     []any
	Extra       map[string]any
	Assumptions []string
	Exhaustive  bool
	Caps        []string
	Unstable    []string
	Steps       int64
	start       time.Time
}

// NewReport creates an empty report.
func NewReport(id, tier, level, rule string) *Report {
	return &Report{Property: id, Tier: tier, Level: level, Rule: rule, Outcomes: map[string]int64{},
		Classes: map[string]*classAgg{}, Extra: map[string]any{}, Exhaustive: true, start: time.Now()}
}

// Cap records that a bound other than the stated one cut the exploration.
func (r *Report) Cap(what string) {
	r.mu.Lock()
	defer r.mu.Unlock()
	r.Exhaustive = false
	r.Caps = append(r.Caps, what)
}

// Count records one evaluated case.
func (r *Report) Count(outcome string, nontrivial bool) {
	r.mu.Lock()
	r.Evaluations++
	r.Distinct++
	if nontrivial {
		r.NonTrivial++
	}
	if len(r.Outcomes) < 5000 || r.Outcomes[outcome] > 0 {
		r.Outcomes[outcome]++
	}
	r.mu.Unlock()
}

// Sample stores an example case (bounded).
func (r *Report) Sample(c any) {
	r.mu.Lock()
	if len(r.Samples) < 12 {
		r.Samples = append(r.Samples, c)
	}
	r.mu.Unlock()
}

// Add records a finding with its case (idx orders witnesses: lowest wins).
func (r *Report) Add(f Finding, idx int64, c any) {
	r.mu.Lock()
	defer r.mu.Unlock()
	a := r.Classes[f.Class]
	if a == nil {
		b, _ := json.Marshal(c)
		a = &classAgg{Class: f.Class, Idx: idx, What: f.What, Case: b, Detail: f.Detail}
		r.Classes[f.Class] = a
	} else if idx < a.Idx {
		b, _ := json.Marshal(c)
		a.Idx, a.What, a.Case, a.Detail = idx, f.What, b, f.Detail
	}
	a.Count++
}

func verifDir() string {
	if d := os.Getenv("VERIF_DIR"); d != "" {
		return d
	}
	return "/verif"
}

func scratchDir() string {
	if d := os.Getenv("VERIF_SCRATCH"); d != "" {
		return d
	}
	d := filepath.Join(os.TempDir(), "verif-scratch-"+strconv.Itoa(os.Getpid()))
	os.MkdirAll(d, 0o755)
	os.Setenv("VERIF_SCRATCH", d)
	return d
}

// Scratch returns a private scratch directory (removed by bin/check on exit).
func Scratch() string { return scratchDir() }

func (s *Spec[T]) parent(tier string) int {
	rep := NewReport(s.ID, tier, s.Level, s.Rule)
	rep.Assumptions = s.Assumptions
	if s.Custom != nil {
		if s.Init != nil {
			s.Init(tier)
		}
		s.Custom(tier, rep)
	} else {
		if s.Prepare != nil {
			s.Prepare(tier, rep)
		}
		s.shardedRun(tier, rep)
	}
	if s.Extra != nil {
		for k, v := range s.Extra(tier) {
			rep.Extra[k] = v
		}
	}
	if s.Finish != nil {
		s.Finish(rep)
	}
	return rep.Finish()
}

func (s *Spec[T]) shardedRun(tier string, rep *Report) {
	n := s.Workers
	if n == 0 {
		n = runtime.NumCPU()
	}
	if v := os.Getenv("VERIF_WORKERS"); v != "" {
		if k, err := strconv.Atoi(v); err == nil && k > 0 {
			n = k
		}
	}
	dl := 20 * time.Minute
	if tier == "thorough" {
		dl = 3 * time.Hour
	}
	if d, ok := s.Deadline[tier]; ok {
		dl = d
	}
	deadline := time.Now().Add(dl)
	dir := filepath.Join(scratchDir(), "w-"+s.ID)
	os.MkdirAll(dir, 0o755)
	self, _ := os.Executable()
	var wg sync.WaitGroup
	outs := make([]*workerOut, n)
	var fatalMu sync.Mutex
	for sh := 0; sh < n; sh++ {
		wg.Add(1)
		go func(sh int) {
			defer wg.Done()
			out := filepath.Join(dir, fmt.Sprintf("out-%d.json", sh))
			skipFile := filepath.Join(dir, fmt.Sprintf("skip-%d.json", sh))
			var skipKeys []string
			for attempt := 0; attempt < 40; attempt++ {
				os.Remove(out)
				cmd := exec.Command(self, "worker", s.ID, tier, strconv.Itoa(sh), strconv.Itoa(n), out, skipFile)
				cmd.Env = append(os.Environ(), "GOMAXPROCS=2", "GOMEMLIMIT=6GiB")
				logf, _ := os.Create(out + ".log")
				cmd.Stdout, cmd.Stderr = logf, logf
				if err := cmd.Start(); err != nil {
					rep.Cap("worker start failed: " + err.Error())
					return
				}
				done := make(chan error, 1)
				go func() { done <- cmd.Wait() }()
				var err error
				timedOut := false
				select {
				case err = <-done:
				case <-time.After(time.Until(deadline)):
					cmd.Process.Kill()
					<-done
					timedOut = true
				}
				logf.Close()
				if timedOut {
					rep.Cap(fmt.Sprintf("shard %d stopped at the %s backstop deadline", sh, dl))
					return
				}
				if b, rerr := os.ReadFile(out); rerr == nil {
					var wo workerOut
					if json.Unmarshal(b, &wo) == nil && wo.Done {
						outs[sh] = &wo
						// fatal crashes attributed in earlier incarnations
						return
					}
				}
				// the worker died without finishing: attribute to the journalled case
				jb, _ := os.ReadFile(out + ".journal")
				key := ""
				if len(jb) >= 8 {
					l := getU64(jb[:8])
					if l > 0 && int(l) <= len(jb)-8 {
						key = string(jb[8 : 8+l])
					}
				}
				lb, _ := os.ReadFile(out + ".log")
				if key == "" {
					rep.Cap(fmt.Sprintf("shard %d died outside a case (%v): %s", sh, err, trunc(string(lb), 300)))
					return
				}
				if len(strings.TrimSpace(string(lb))) == 0 {
					// killed from outside without a word (the kernel's out-of-memory killer, an operator): nothing the code under
					// test printed, so nothing to attribute to it. The case is left out and reported as a cap.
					rep.Cap(fmt.Sprintf("shard %d was killed without output (%v; out of memory?) while running a case; the case is left out: %s", sh, err, trunc(key, 200)))
					skipKeys = append(skipKeys, key)
					kb, _ := json.Marshal(skipKeys)
					os.WriteFile(skipFile, kb, 0o644)
					continue
				}
				fatalMu.Lock()
				site := fatalSite(string(lb))
				rep.mu.Lock()
				cls := "fatal@" + site
				a := rep.Classes[cls]
				if a == nil {
					a = &classAgg{Class: cls, Idx: 1 << 60, What: "process died: " + trunc(firstLine(string(lb)), 160), Detail: trunc(string(lb), 2000)}
					a.Case, _ = json.Marshal(map[string]string{"key": key})
					rep.Classes[cls] = a
				}
				a.Count++
				rep.mu.Unlock()
				fatalMu.Unlock()
				skipKeys = append(skipKeys, key)
				kb, _ := json.Marshal(skipKeys)
				os.WriteFile(skipFile, kb, 0o644)
			}
			rep.Cap(fmt.Sprintf("shard %d: too many fatal crashes", sh))
		}(sh)
	}
	wg.Wait()
	emitted := int64(-1)
	var emitHash uint64
	for _, wo := range outs {
		if wo == nil {
			continue
		}
		if emitted >= 0 && wo.Emitted == emitted && wo.EmitHash != emitHash {
			rep.Cap("HARNESS: generator not deterministic across workers (same number of cases, different cases)")
			fmt.Printf("HARNESS-WARNING: generator of %s is not deterministic across workers (case hash differs)\n", rep.Property)
		}
		emitHash = wo.EmitHash
		if emitted >= 0 && wo.Emitted != emitted {
			// every worker enumerates the whole space; a disagreement means the generator is not
			// deterministic and the shards do not partition one space
			rep.Cap(fmt.Sprintf("HARNESS: generator not deterministic across workers (%d vs %d cases emitted)", emitted, wo.Emitted))
			fmt.Printf("HARNESS-WARNING: generator of %s is not deterministic across workers (%d vs %d cases)\n", rep.Property, emitted, wo.Emitted)
		}
		emitted = wo.Emitted
		rep.Extra["cases_generated"] = wo.Emitted
		rep.Evaluations += wo.Evaluations
		rep.Steps += wo.Steps
		rep.Distinct += wo.Distinct
		rep.NonTrivial += wo.NonTrivial
		rep.Skipped += wo.Skipped
		if wo.NotRun > 0 {
			rep.Cap(fmt.Sprintf("shard %d: %d cases not run (soft deadline %s reached)", wo.Shard, wo.NotRun, s.SoftDeadline[tier]))
		}
		for k, v := range wo.Outcomes {
			rep.Outcomes[k] += v
		}
		for _, sm := range wo.Samples {
			if len(rep.Samples) < 16 {
				var v any
				json.Unmarshal(sm, &v)
				rep.Samples = append(rep.Samples, v)
			}
		}
		for k, a := range wo.Classes {
			b := rep.Classes[k]
			if b == nil {
				rep.Classes[k] = a
			} else {
				cnt := b.Count + a.Count
				if a.Idx < b.Idx {
					*b = *a
				}
				b.Count = cnt
			}
		}
	}
	os.RemoveAll(dir)
}

func firstLine(s string) string {
	for _, l := range strings.Split(s, "\n") {
		if strings.TrimSpace(l) != "" {
			return l
		}
	}
	return ""
}

func fatalSite(log string) string {
	kind := "unknown"
	for _, k := range []string{"stack overflow", "out of memory", "concurrent map", "cannot allocate memory", "all goroutines are asleep"} {
		if strings.Contains(log, k) {
			kind = k
			break
		}
	}
	// first falco frame
	for _, l := range strings.Split(log, "\n") {
		if strings.HasPrefix(l, "github.com/ysugimoto/falco/v2/") {
			if j := strings.LastIndex(l, "("); j > 0 {
				l = l[:j]
			}
			return strings.TrimPrefix(l, "github.com/ysugimoto/falco/v2/") + "|" + kind
		}
	}
	return "?|" + kind
}

// ---------------------------------------------------------------------------
// known findings, replay files, evidence

type knownEntry struct {
	Property string `json:"property"`
	Class    string `json:"class"`
	Status   string `json:"status"` // known | fixed
	What     string `json:"what"`
	Witness  any    `json:"witness,omitempty"`
	Commit   string `json:"commit,omitempty"`
	Line     string `json:"line,omitempty"`
}

func loadKnown(prop string) map[string]knownEntry {
	m := map[string]knownEntry{}
	b, err := os.ReadFile(filepath.Join(verifDir(), "known_findings.json"))
	if err != nil {
		return m
	}
	var doc struct {
		Findings []knownEntry `json:"findings"`
	}
	if err := json.Unmarshal(b, &doc); err != nil {
		fmt.Fprintln(os.Stderr, "known_findings.json unreadable:", err)
		return m
	}
	for _, e := range doc.Findings {
		if e.Property == prop && e.Status == "known" {
			m[e.Class] = e
		}
	}
	return m
}

type replayFile struct {
	Property string          `json:"property"`
	Class    string          `json:"class"`
	What     string          `json:"what"`
	Tier     string          `json:"tier"`
	Case     json.RawMessage `json:"case"`
	Detail   any             `json:"detail,omitempty"`
}

func classFile(cls string) string {
	h := hashKey(cls)
	safe := make([]rune, 0, 40)
	for _, r := range cls {
		if len(safe) >= 40 {
			break
		}
		if r >= 'a' && r <= 'z' || r >= 'A' && r <= 'Z' || r >= '0' && r <= '9' || r == '-' || r == '_' || r == '.' {
			safe = append(safe, r)
		} else {
			safe = append(safe, '_')
		}
	}
	return fmt.Sprintf("%s-%08x.json", string(safe), uint32(h))
}

// Finish classifies findings against the known-findings file, confirms new ones
// by replaying them in fresh processes, writes evidence and returns the exit code.
func (r *Report) Finish() int {
	known := loadKnown(r.Property)
	classes := make([]*classAgg, 0, len(r.Classes))
	for _, a := range r.Classes {
		classes = append(classes, a)
	}
	sort.Slice(classes, func(i, j int) bool { return classes[i].Class < classes[j].Class })
	rdir := filepath.Join(verifDir(), "replays", r.Property)
	self, _ := os.Executable()
	violations := 0
	knownSeen := 0
	var vioLines []string
	type clsOut struct {
		Class  string `json:"class"`
		Count  int64  `json:"count"`
		Status string `json:"status"`
		What   string `json:"what"`
	}
	var clsList []clsOut
	dump := os.Getenv("VERIF_DUMP_CLASSES") != ""
	for _, a := range classes {
		if k, ok := known[a.Class]; ok {
			knownSeen++
			fmt.Printf("KNOWN-FINDING: property=%s %s [class %s]\n", r.Property, oneLine(k.What), a.Class)
			clsList = append(clsList, clsOut{a.Class, a.Count, "known", a.What})
			continue
		}
		os.MkdirAll(rdir, 0o755)
		path := filepath.Join(rdir, classFile(a.Class))
		rf := replayFile{Property: r.Property, Class: a.Class, What: a.What, Tier: r.Tier, Case: a.Case, Detail: a.Detail}
		b, _ := json.MarshalIndent(rf, "", " ")
		os.WriteFile(path, b, 0o644)
		status := "violation"
		if !dump && violations < 25 && !strings.HasPrefix(a.Class, "fatal@") && os.Getenv("VERIF_NO_CONFIRM") == "" {
			// confirm: 3 fresh-process replays must all reproduce
			okAll := true
			for i := 0; i < 3; i++ {
				cmd := exec.Command(self, "replay", path)
				cmd.Env = append(os.Environ(), "VERIF_QUIET=1")
				err := cmd.Run()
				if ee, isExit := err.(*exec.ExitError); !(isExit && ee.ExitCode() == 1) {
					okAll = false
					break
				}
			}
			if !okAll {
				status = "unstable"
			}
		}
		if status == "unstable" {
			r.Unstable = append(r.Unstable, a.Class)
			r.Exhaustive = false
			fmt.Printf("UNSTABLE (not reproduced on replay, not reported): property=%s class=%s\n", r.Property, a.Class)
			clsList = append(clsList, clsOut{a.Class, a.Count, "unstable", a.What})
			continue
		}
		violations++
		vioLines = append(vioLines, fmt.Sprintf("VIOLATION property=%s replay=%s", r.Property, path))
		fmt.Printf("  class=%s count=%d: %s\n", a.Class, a.Count, oneLine(a.What))
		clsList = append(clsList, clsOut{a.Class, a.Count, status, a.What})
	}
	if dump {
		// helper mode for triage: print every class with its witness
		for _, a := range classes {
			fmt.Printf("CLASS\t%s\t%d\t%s\t%s\n", a.Class, a.Count, oneLine(a.What), trunc(string(a.Case), 600))
		}
	}
	for _, l := range vioLines {
		fmt.Println(l)
	}
	// keep the evidence file small: at most 200 classes, short descriptions
	if len(clsList) > 200 {
		clsList = clsList[:200]
	}
	for i := range clsList {
		clsList[i].What = trunc(clsList[i].What, 300)
	}
	cov := map[string]any{
		"evaluations":         r.Evaluations,
		"distinct":            r.Distinct,
		"distinct_nontrivial": r.NonTrivial,
		"skipped_not_applicable": r.Skipped,
		"rule":                r.Rule,
		"samples":             r.Samples,
		"distinct_outcomes":   len(r.Outcomes),
		"exhaustive":          r.Exhaustive,
		"caps_hit":            r.Caps,
		"classes":             clsList,
		"classes_total":       len(classes),
		"known_findings_observed": knownSeen,
		"unstable":            r.Unstable,
	}
	if len(r.Outcomes) <= 40 {
		cov["outcomes"] = r.Outcomes
	}
	for k, v := range r.Extra {
		cov[k] = v
	}
	if r.Samples == nil {
		cov["samples"] = []any{}
	}
	seed := 0
	if v := os.Getenv("VERIF_SEED"); v != "" {
		seed, _ = strconv.Atoi(v)
	}
	ev := map[string]any{
		"property_id": r.Property,
		"tier":        r.Tier,
		"seed":        seed,
		"level":       r.Level,
		"coverage":    cov,
		"assumptions": r.Assumptions,
		"wall_s":      time.Since(r.start).Seconds(),
		"violations":  violations,
	}
	if r.Assumptions == nil {
		ev["assumptions"] = []string{}
	}
	edir := filepath.Join(verifDir(), "evidence")
	os.MkdirAll(edir, 0o755)
	b, _ := json.MarshalIndent(ev, "", " ")
	if os.Getenv("VERIF_NO_EVIDENCE") == "" {
		os.WriteFile(filepath.Join(edir, r.Property+".json"), append(b, '\n'), 0o644)
	}
	fmt.Printf("%s %s: evaluations=%d distinct=%d nontrivial=%d outcomes=%d classes=%d known=%d violations=%d exhaustive=%v wall=%.1fs\n",
		r.Property, r.Tier, r.Evaluations, r.Distinct, r.NonTrivial, len(r.Outcomes), len(classes), knownSeen, violations, r.Exhaustive, time.Since(r.start).Seconds())
	if violations > 0 {
		return 1
	}
	if r.Evaluations == 0 {
		fmt.Println("harness error: nothing was evaluated")
		return 2
	}
	return 0
}

func oneLine(s string) string {
	s = strings.ReplaceAll(s, "\n", "\\n")
	return trunc(s, 300)
}

func (s *Spec[T]) replay(path string) int {
	b, err := os.ReadFile(path)
	if err != nil {
		fmt.Println("replay:", err)
		return 2
	}
	var rf replayFile
	if err := json.Unmarshal(b, &rf); err != nil {
		fmt.Println("replay:", err)
		return 2
	}
	tier := rf.Tier
	if tier == "" {
		tier = "quick"
	}
	if s.Init != nil {
		s.Init(tier)
	}
	var fs []Finding
	if s.Custom != nil {
		if s.ReplayCustom == nil {
			fmt.Println("replay: not supported for", s.ID)
			return 2
		}
		fs = s.ReplayCustom(rf.Case)
	} else {
		var c T
		if err := json.Unmarshal(rf.Case, &c); err != nil {
			fmt.Println("replay: case:", err)
			return 2
		}
		res := SafeRun(func() Result { return s.Run(c) })
		fs = res.Findings
	}
	quiet := os.Getenv("VERIF_QUIET") != ""
	hit := false
	for _, f := range fs {
		if f.Class == rf.Class {
			hit = true
		}
		if !quiet {
			fmt.Printf("finding class=%s: %s\n", f.Class, f.What)
			if f.Detail != nil {
				db, _ := json.MarshalIndent(f.Detail, "", " ")
				fmt.Println(trunc(string(db), 4000))
			}
		}
	}
	if hit {
		if !quiet {
			fmt.Printf("VIOLATION property=%s replay=%s\n", s.ID, path)
		}
		return 1
	}
	if !quiet {
		fmt.Println("replay: class not reproduced:", rf.Class)
	}
	return 0
}

// Main is the entry point of the vf binary.
func Main() {
	args := os.Args[1:]
	if len(args) == 0 {
		fmt.Println("usage: vf <id> <quick|thorough> | vf replay <file> | vf list")
		os.Exit(2)
	}
	switch args[0] {
	case "list":
		ids := []string{}
		for k := range registry {
			ids = append(ids, k)
		}
		sort.Strings(ids)
		fmt.Println(strings.Join(ids, " "))
	case "worker":
		s := registry[args[1]]
		sh, _ := strconv.Atoi(args[3])
		n, _ := strconv.Atoi(args[4])
		s.worker(args[2], sh, n, args[5], args[6])
	case "replay":
		b, err := os.ReadFile(args[1])
		if err != nil {
			fmt.Println(err)
			os.Exit(2)
		}
		var rf replayFile
		json.Unmarshal(b, &rf)
		s := registry[rf.Property]
		if s == nil {
			fmt.Println("unknown property in replay file:", rf.Property)
			os.Exit(2)
		}
		os.Exit(s.replay(args[1]))
	default:
		s := registry[strings.ToUpper(args[0])]
		if s == nil {
			if h, ok := extraCommands[args[0]]; ok {
				os.Exit(h(args[1:]))
			}
			fmt.Println("unknown check:", args[0])
			os.Exit(2)
		}
		tier := os.Getenv("VERIF_TIER")
		if len(args) > 1 {
			tier = args[1]
		}
		if tier == "" {
			tier = "quick"
		}
		os.Exit(s.parent(tier))
	}
}

var extraCommands = map[string]func([]string) int{}

// RegisterCommand adds an auxiliary sub-command (plugin stubs, helpers).
func RegisterCommand(name string, h func([]string) int) { extraCommands[name] = h }

var _ = bufio.NewReader
