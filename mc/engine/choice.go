// Package engine holds the shared model-checking machinery: the stateless
// deviation-bounded explorer (choice.go), the sharded case runner with crash
// attribution, known-finding classification and evidence writing (run.go).
package engine

import "fmt"

// C is the choice source handed to a generator body. Choice 0 is always the
// default / simplest alternative. A body must be deterministic in its choices.
type C struct {
	prefix  []int
	points  []point
	devs    int
	aborted bool
}

type point struct {
	n      int
	weight int
	label  string
	chosen int
}

// Choose returns a value in [0,n). A non-default answer costs one deviation.
func (c *C) Choose(n int, label string) int { return c.ChooseW(n, label, 1) }

// Free is a choice whose alternatives cost nothing (dimensions that are always
// fully crossed).
func (c *C) Free(n int, label string) int { return c.ChooseW(n, label, 0) }

// ChooseW is Choose with an explicit deviation weight for non-default answers.
func (c *C) ChooseW(n int, label string, weight int) int {
	if n <= 0 {
		panic("choice: n<=0 at " + label)
	}
	i := len(c.points)
	v := 0
	if i < len(c.prefix) {
		v = c.prefix[i]
		if v >= n {
			panic(fmt.Sprintf("choice: replay diverged at %d (%s): %d >= %d", i, label, v, n))
		}
	}
	if v != 0 {
		c.devs += weight
	}
	c.points = append(c.points, point{n: n, weight: weight, label: label, chosen: v})
	return v
}

// Bool is Choose(2).
func (c *C) Bool(label string) bool { return c.Choose(2, label) == 1 }

// Deviations spent so far in this execution.
func (c *C) Deviations() int { return c.devs }

// Vector is the choice vector of the execution so far.
func (c *C) Vector() []int {
	v := make([]int, len(c.points))
	for i, p := range c.points {
		v[i] = p.chosen
	}
	return v
}

// ExploreStats reports what an Explore call covered.
type ExploreStats struct {
	Executions int64
	MaxPoints  int
	CapHits    int64 // branches cut by MaxPoints / MaxExec (not by the deviation bound)
	Bound      int
}

// Explore runs body once per choice vector with at most bound deviations from
// the all-default vector (iteratively: depth-first over "first deviating
// position", which enumerates every vector exactly once). maxPoints caps the
// number of choice points considered for alternatives (0 = no cap).
func Explore(bound int, maxPoints int, body func(c *C)) ExploreStats {
	st := ExploreStats{Bound: bound}
	var rec func(prefix []int)
	rec = func(prefix []int) {
		c := &C{prefix: prefix}
		body(c)
		st.Executions++
		if len(c.points) > st.MaxPoints {
			st.MaxPoints = len(c.points)
		}
		// cost of deviations up to each index
		cost := 0
		for i := 0; i < len(c.points); i++ {
			p := c.points[i]
			if i >= len(prefix) {
				if maxPoints > 0 && i >= maxPoints {
					if p.n > 1 {
						st.CapHits++
					}
					continue
				}
				if cost+p.weight <= bound {
					for alt := 1; alt < p.n; alt++ {
						np := make([]int, i+1)
						for j := 0; j < i; j++ {
							np[j] = c.points[j].chosen
						}
						np[i] = alt
						rec(np)
					}
				}
			}
			if p.chosen != 0 {
				cost += p.weight
			}
		}
	}
	rec(nil)
	return st
}

// Replay runs body once with the given vector.
func Replay(vec []int, body func(c *C)) {
	body(&C{prefix: vec})
}
