// Package vmap is the map-iteration-order seam: instrumented `range` loops over
// maps iterate over Keys(m, site). Without a hook the order is the natural
// (sorted) one; the explorer installs Perm to own Go's randomised order.
package vmap

import (
	"fmt"
	"sort"
)

// Perm, when set, returns the index of the permutation (0 = natural order,
// 0 <= index < n!) to use for this dynamic execution of the site with n keys.
// A negative index selects one of the 2n-1 orders used for maps too large for n!: -1 = reversed,
// -(k+1) = rotated left by k (0 < k < n), -(n+k) = rotated left by k and reversed.
var Perm func(site string, n int) int

// Sites records which sites were executed (site -> max number of keys seen).
var Sites = map[string]int{}

// Keys returns the keys of m in the order chosen for this execution.
func Keys[K comparable, V any](m map[K]V, site string) []K {
	ks := make([]K, 0, len(m))
	for k := range m {
		ks = append(ks, k)
	}
	sort.Slice(ks, func(i, j int) bool { return fmt.Sprint(ks[i]) < fmt.Sprint(ks[j]) })
	if len(ks) > Sites[site] {
		Sites[site] = len(ks)
	}
	if Perm == nil || len(ks) < 2 {
		return ks
	}
	idx := Perm(site, len(ks))
	if idx == 0 {
		return ks
	}
	if idx < 0 {
		n := len(ks)
		k, rev := -idx-1, false
		if k == 0 {
			rev = true
		} else if k >= n {
			k, rev = k-n+1, true
		}
		out := append(append([]K{}, ks[k%n:]...), ks[:k%n]...)
		if rev {
			for i, j := 0, n-1; i < j; i, j = i+1, j-1 {
				out[i], out[j] = out[j], out[i]
			}
		}
		return out
	}
	// decode the idx-th permutation in lexicographic order (factorial number system)
	n := len(ks)
	pool := append([]K{}, ks...)
	out := make([]K, 0, n)
	f := 1
	for i := 2; i < n; i++ {
		f *= i
	}
	for i := n - 1; i >= 0; i-- {
		j := 0
		if f > 0 {
			j = idx / f
			idx = idx % f
		}
		if j >= len(pool) {
			j = len(pool) - 1
		}
		out = append(out, pool[j])
		pool = append(pool[:j], pool[j+1:]...)
		if i > 0 {
			f /= i
		}
	}
	return out
}

// Factorial of n (n <= 12).
func Factorial(n int) int {
	f := 1
	for i := 2; i <= n; i++ {
		f *= i
	}
	return f
}
