// Package fuel is the deterministic non-termination / runaway-recursion oracle.
// Instrumented falco code calls Tick at the entry of every function and loop
// body; the harness arms a budget per case. No wall clock is involved.
package fuel

// Sentinel prefixes the panic value raised when the budget is exhausted.
const Sentinel = "VERIF-FUEL-EXHAUSTED"

var (
	left  int64 = 1 << 62
	armed bool
	used  int64
)

// Hook, when set, is called on every tick (the controlled scheduler uses ticks as scheduling points).
var Hook func()

// Tick consumes one unit.
func Tick() {
	if Hook != nil {
		Hook()
	}
	left--
	if left < 0 && armed {
		armed = false
		left = 1 << 62
		panic(Sentinel)
	}
}

// Arm sets the budget for the next case.
func Arm(n int64) { left, armed, used = n, true, n }

// Disarm stops counting and returns the units consumed since Arm.
func Disarm() int64 {
	u := used - left
	armed = false
	left = 1 << 62
	return u
}

// Instrumented reports whether any tick has ever been consumed (selftest).
func Instrumented() bool { return left != 1<<62 }
