// Package vsched is a cooperative, fully controlled scheduler for goroutines of
// instrumented falco code. The instrumenter rewrites, in the selected packages,
//
//	import "sync"            -> this package (Mutex, RWMutex, WaitGroup modelled; the rest aliased)
//	go f(args)               -> vsched.Go(func(){ f(args') })     (arguments bound at spawn time)
//	x.f = append(x.f, ...)   -> t := x.f; vsched.RMW(&x.f, site); x.f = append(t, ...)   (also x.f++, x.f op= e)
//	function entries / loops -> fuel.Tick(), which calls Point when an exploration is active
//
// While an exploration is active exactly one managed goroutine runs at a time;
// at every Point with more than one enabled thread the next thread is taken
// from the choice sequence of the run (choice 0 = keep running the current
// thread, else the lowest id). Blocking operations are modelled (a thread
// waiting for a Mutex or a WaitGroup is not enabled); "no enabled thread but
// some blocked" is reported as deadlock. Happens-before is tracked with vector
// clocks over spawn, mutex release/acquire, WaitGroup done/wait and thread end;
// every RMW site reports a race when its read or write is unordered with a
// conflicting access of another thread.
//
// When no exploration is active every type behaves as its sync counterpart.
package vsched

import (
	"fmt"
	"reflect"
	"sort"
	"sync"
	"sync/atomic"
	"time"
	"unsafe"

	"github.com/ysugimoto/falco/v2/zzverif/fuel"
)

// aliases for the parts of sync that are not modelled
type (
	Once   = sync.Once
	Map    = sync.Map
	Pool   = sync.Pool
	Locker = sync.Locker
)

type thread struct {
	id      int
	wake    chan struct{}
	done    bool
	blocked any // object the thread waits for (nil = runnable)
	vc      []int
}

// PointRec is one recorded choice point (only points with >= 2 enabled threads are recorded).
type PointRec struct {
	Kind    string `json:"kind"`
	Running int    `json:"running"` // id of the thread that reached the point (-1: it just ended or blocked)
	Enabled []int  `json:"enabled"` // canonical order: running thread first if enabled, then ascending ids
	Chosen  int    `json:"chosen"`  // index into Enabled
}

// Race is an unordered pair of conflicting accesses at an RMW site.
type Race struct {
	Site   string `json:"site"`
	Kind   string `json:"kind"` // write-write | read-write | write-read
	Thread int    `json:"thread"`
	Other  int    `json:"other"`
}

// Trace is the record of one controlled execution.
type Trace struct {
	Points      []PointRec
	Choices     []int // chosen index at every recorded point
	Races       []Race
	Deadlock    bool
	Diverged    string // non-empty: a prefix choice was out of range (replay divergence)
	Capped      bool   // maxPoints reached: the rest ran with default choices
	Threads     int
	AllPoints   int64 // every Point call, including those with one enabled thread
	Preemptions int
	Panic       string
	// Stuck: the running thread made no progress for the backstop time while the run was not finished: it blocks in an
	// operation the scheduler does not own (channel, condition variable, I/O). The execution is abandoned, not judged.
	Stuck bool
}

type access struct {
	tid   int
	clock int
}

type locState struct {
	site  string
	write *access
	reads map[int]int
}

type sched struct {
	mu        sync.Mutex
	threads   []*thread
	cur       *thread
	prefix    []int
	maxPoints int
	tr        Trace
	locs      map[unsafe.Pointer]*locState
	finished  chan struct{}
	over      bool
	chVC      map[uintptr][]int
	raceSeen  map[string]bool
}

var (
	active atomic.Bool
	cur    *sched
)

// StuckAfterHalfSeconds: how long (in half seconds) an execution may go without reaching a scheduling point before it is abandoned.
var StuckAfterHalfSeconds = 20

// Active reports whether an exploration run is in progress.
func Active() bool { return active.Load() }

func init() {
	fuel.Hook = func() {
		if active.Load() {
			Point("tick")
		}
	}
}

// Run executes body as thread 0 under the scheduler, replaying prefix and taking
// choice 0 afterwards. It returns when every managed thread has ended (or on deadlock).
func Run(prefix []int, maxPoints int, body func()) Trace {
	if active.Load() {
		panic("vsched: nested Run")
	}
	s := &sched{prefix: prefix, maxPoints: maxPoints, locs: map[unsafe.Pointer]*locState{}, finished: make(chan struct{}), raceSeen: map[string]bool{}}
	t0 := &thread{id: 0, wake: make(chan struct{}, 1), vc: []int{1}}
	s.threads = []*thread{t0}
	s.cur = t0
	cur = s
	active.Store(true)
	go func() {
		<-t0.wake
		defer s.exit(t0)
		body()
	}()
	t0.wake <- struct{}{}
	// backstop, not an oracle: give up on an execution that stops reaching scheduling points
	go func() {
		last := int64(-1)
		idle := 0
		for {
			select {
			case <-s.finished:
				return
			case <-time.After(500 * time.Millisecond):
			}
			s.mu.Lock()
			n := s.tr.AllPoints
			if n == last {
				idle++
			} else {
				idle, last = 0, n
			}
			if idle >= StuckAfterHalfSeconds && !s.over {
				s.over = true
				s.tr.Stuck = true
				close(s.finished)
				s.mu.Unlock()
				return
			}
			s.mu.Unlock()
		}
	}()
	<-s.finished
	active.Store(false)
	cur = nil
	s.tr.Threads = len(s.threads)
	return s.tr
}

// enabledLocked lists runnable threads in canonical order.
func (s *sched) enabledLocked(running *thread) []int {
	var ids []int
	for _, t := range s.threads {
		if !t.done && t.blocked == nil && t != running {
			ids = append(ids, t.id)
		}
	}
	sort.Ints(ids)
	if running != nil && !running.done && running.blocked == nil {
		ids = append([]int{running.id}, ids...)
	}
	return ids
}

// choose records a choice point and returns the thread to run next (nil: none enabled).
func (s *sched) chooseLocked(kind string, running *thread) *thread {
	en := s.enabledLocked(running)
	if len(en) == 0 {
		return nil
	}
	if len(en) == 1 {
		return s.threads[en[0]]
	}
	idx := 0
	n := len(s.tr.Points)
	if n < len(s.prefix) {
		idx = s.prefix[n]
		if idx < 0 || idx >= len(en) {
			if s.tr.Diverged == "" {
				s.tr.Diverged = fmt.Sprintf("choice %d at point %d out of range (%d enabled)", idx, n, len(en))
			}
			idx = 0
		}
	}
	if s.maxPoints > 0 && n >= s.maxPoints {
		s.tr.Capped = true
		return s.threads[en[idx]]
	}
	r := -1
	if running != nil && !running.done && running.blocked == nil {
		r = running.id
		if idx != 0 {
			s.tr.Preemptions++
		}
	}
	s.tr.Points = append(s.tr.Points, PointRec{Kind: kind, Running: r, Enabled: en, Chosen: idx})
	s.tr.Choices = append(s.tr.Choices, idx)
	return s.threads[en[idx]]
}

// handoff passes control from me to next and parks me until I am scheduled again.
func (s *sched) handoff(me, next *thread) {
	if next == me {
		return
	}
	s.cur = next
	s.mu.Unlock()
	next.wake <- struct{}{}
	<-me.wake
	s.mu.Lock()
}

// Point is a scheduling point of the running thread.
func Point(kind string) {
	if !active.Load() {
		return
	}
	s := cur
	s.mu.Lock()
	s.tr.AllPoints++
	me := s.cur
	next := s.chooseLocked(kind, me)
	s.handoff(me, next)
	s.mu.Unlock()
}

// block parks the running thread until obj is signalled.
func (s *sched) blockLocked(me *thread, obj any, kind string) {
	me.blocked = obj
	next := s.chooseLocked(kind, me)
	if next == nil {
		s.deadlockLocked()
		// park forever: the run is over
		s.mu.Unlock()
		select {}
	}
	s.handoff(me, next)
}

func (s *sched) wakeAllLocked(obj any) {
	for _, t := range s.threads {
		if t.blocked == obj {
			t.blocked = nil
		}
	}
}

func (s *sched) deadlockLocked() {
	if !s.over {
		s.over = true
		s.tr.Deadlock = true
		close(s.finished)
	}
}

// exit ends a thread and schedules the next one.
func (s *sched) exit(me *thread) {
	if r := recover(); r != nil {
		s.mu.Lock()
		if s.tr.Panic == "" {
			s.tr.Panic = fmt.Sprint(r)
		}
		s.mu.Unlock()
	}
	s.mu.Lock()
	me.done = true
	// joiners are expressed through WaitGroups and channels
	s.wakeAllLocked(chanWait)
	next := s.chooseLocked("exit", nil)
	if next == nil {
		alive := false
		for _, t := range s.threads {
			if !t.done {
				alive = true
			}
		}
		if alive {
			s.deadlockLocked()
		} else if !s.over {
			s.over = true
			close(s.finished)
		}
		s.mu.Unlock()
		return
	}
	s.cur = next
	s.mu.Unlock()
	next.wake <- struct{}{}
}

// Go starts f as a managed thread (a plain goroutine when no exploration is active).
func Go(f func()) {
	Spawn(f)
	Point("go")
}

// Spawn is Go without a scheduling point after the spawn (harness drivers start all their
// threads first and then wait, so that the driver itself is never an alternative).
func Spawn(f func()) {
	if !active.Load() {
		go f()
		return
	}
	s := cur
	s.mu.Lock()
	me := s.cur
	t := &thread{id: len(s.threads), wake: make(chan struct{}, 1)}
	// spawn edge: child starts with the parent's clock
	t.vc = make([]int, len(s.threads)+1)
	copy(t.vc, me.vc)
	t.vc[t.id] = 1
	s.threads = append(s.threads, t)
	me.vc = tickVC(me.vc, me.id)
	s.mu.Unlock()
	go func() {
		<-t.wake
		defer s.exit(t)
		f()
	}()
}

func tickVC(vc []int, id int) []int {
	for len(vc) <= id {
		vc = append(vc, 0)
	}
	vc[id]++
	return vc
}

func joinVC(a, b []int) []int {
	for len(a) < len(b) {
		a = append(a, 0)
	}
	for i, v := range b {
		if v > a[i] {
			a[i] = v
		}
	}
	return a
}

func copyVC(a []int) []int { return append([]int{}, a...) }

// ---------------------------------------------------------------------------
// race detection at RMW sites

func hb(a *access, vc []int) bool { return a.tid < len(vc) && a.clock <= vc[a.tid] }

func (s *sched) raceLocked(site, kind string, me *thread, other int) {
	k := site + "|" + kind
	if s.raceSeen[k] {
		return
	}
	s.raceSeen[k] = true
	s.tr.Races = append(s.tr.Races, Race{Site: site, Kind: kind, Thread: me.id, Other: other})
}

func (s *sched) readLocked(p unsafe.Pointer, site string, me *thread) {
	l := s.locs[p]
	if l == nil {
		l = &locState{site: site, reads: map[int]int{}}
		s.locs[p] = l
	}
	if l.write != nil && l.write.tid != me.id && !hb(l.write, me.vc) {
		s.raceLocked(site, "write-read", me, l.write.tid)
	}
	l.reads[me.id] = me.vc[me.id]
}

func (s *sched) writeLocked(p unsafe.Pointer, site string, me *thread) {
	l := s.locs[p]
	if l == nil {
		l = &locState{site: site, reads: map[int]int{}}
		s.locs[p] = l
	}
	if l.write != nil && l.write.tid != me.id && !hb(l.write, me.vc) {
		s.raceLocked(site, "write-write", me, l.write.tid)
	}
	for tid, c := range l.reads {
		if tid != me.id && !hb(&access{tid, c}, me.vc) {
			s.raceLocked(site, "read-write", me, tid)
		}
	}
	l.write = &access{me.id, me.vc[me.id]}
	l.reads = map[int]int{}
}

// RMW marks a read-modify-write of the location p: the instrumented code has
// read the old value before the call and writes the new one after it. The gap
// between the two is a scheduling point.
func RMW[T any](ptr *T, site string) {
	if !active.Load() {
		return
	}
	p := unsafe.Pointer(ptr)
	s := cur
	s.mu.Lock()
	me := s.cur
	s.readLocked(p, site, me)
	s.mu.Unlock()
	Point("rmw")
	s.mu.Lock()
	me = s.cur
	s.writeLocked(p, site, me)
	me.vc = tickVC(me.vc, me.id)
	s.mu.Unlock()
}

// RMWQuiet is RMW without the scheduling point (race check only).
func RMWQuiet[T any](ptr *T, site string) {
	if !active.Load() {
		return
	}
	p := unsafe.Pointer(ptr)
	s := cur
	s.mu.Lock()
	me := s.cur
	s.readLocked(p, site, me)
	s.writeLocked(p, site, me)
	me.vc = tickVC(me.vc, me.id)
	s.mu.Unlock()
}

// Read / Write mark plain accesses (used by harness-side shared objects).
func Read(p unsafe.Pointer, site string) {
	if !active.Load() {
		return
	}
	s := cur
	s.mu.Lock()
	s.readLocked(p, site, s.cur)
	s.mu.Unlock()
}

func Write(p unsafe.Pointer, site string) {
	if !active.Load() {
		return
	}
	s := cur
	s.mu.Lock()
	s.writeLocked(p, site, s.cur)
	s.cur.vc = tickVC(s.cur.vc, s.cur.id)
	s.mu.Unlock()
}

// ---------------------------------------------------------------------------
// channels. The instrumenter rewrites, in the selected packages, receive expressions to RecvV / RecvV2, send statements
// to SendF and close(ch) to CloseF. Receives poll the real channel without blocking at a scheduling point and park the
// thread otherwise; a send is performed by a helper goroutine that blocks for real while the managed sender is parked
// until the helper reports completion (so a polling receiver finds a parked sender on an unbuffered channel); every
// completed channel operation wakes the parked threads. Happens-before follows send/close -> receive.
// select statements and range-over-channel loops are not modelled (the progress backstop abandons such executions).

var chanWait = new(int) // what threads parked on a channel operation wait for

func chanKey(ch any) uintptr { return reflect.ValueOf(ch).Pointer() }

func (s *sched) chanDoneLocked(key uintptr, recv bool) {
	me := s.cur
	if s.chVC == nil {
		s.chVC = map[uintptr][]int{}
	}
	if recv {
		me.vc = joinVC(me.vc, s.chVC[key])
	} else {
		s.chVC[key] = joinVC(copyVC(s.chVC[key]), me.vc)
		me.vc = tickVC(me.vc, me.id)
	}
	s.wakeAllLocked(chanWait)
}

// chanPark parks the running thread until some channel operation completes; when nothing else can run it polls in real
// time instead (the other side may be a goroutine the scheduler does not manage, e.g. a timer).
func chanPark() {
	s := cur
	s.mu.Lock()
	me := s.cur
	others := false
	for _, t := range s.threads {
		if t != me && !t.done && t.blocked == nil {
			others = true
		}
	}
	if !others {
		s.mu.Unlock()
		time.Sleep(200 * time.Microsecond)
		return
	}
	s.blockLocked(me, chanWait, "chan-wait")
	s.mu.Unlock()
}

// RecvV2 is `v, ok := <-ch`.
func RecvV2[T any](ch <-chan T) (T, bool) {
	if !active.Load() {
		v, ok := <-ch
		return v, ok
	}
	for {
		Point("chan-recv")
		select {
		case v, ok := <-ch:
			s := cur
			s.mu.Lock()
			s.chanDoneLocked(chanKey(ch), true)
			s.mu.Unlock()
			return v, ok
		default:
		}
		chanPark()
	}
}

// RecvV is `<-ch`.
func RecvV[T any](ch <-chan T) T {
	v, _ := RecvV2(ch)
	return v
}

// SendF is `ch <- v`: send performs the real (blocking) send.
func SendF(ch any, send func()) {
	if !active.Load() {
		send()
		return
	}
	s := cur
	s.mu.Lock()
	s.chanDoneLocked(chanKey(ch), false) // the value is published before the receiver can see it
	s.mu.Unlock()
	var done atomic.Bool
	go func() {
		send()
		done.Store(true)
	}()
	for {
		Point("chan-send")
		if done.Load() {
			s.mu.Lock()
			s.wakeAllLocked(chanWait)
			s.mu.Unlock()
			return
		}
		chanPark()
	}
}

// CloseF is `close(ch)`.
func CloseF(ch any, closeIt func()) {
	if !active.Load() {
		closeIt()
		return
	}
	s := cur
	s.mu.Lock()
	s.chanDoneLocked(chanKey(ch), false)
	s.mu.Unlock()
	closeIt()
	Point("chan-close")
}

// ---------------------------------------------------------------------------
// Mutex

type Mutex struct {
	real sync.Mutex
	held bool
	rel  []int
}

func (m *Mutex) Lock() {
	if !active.Load() {
		m.real.Lock()
		return
	}
	s := cur
	s.mu.Lock()
	for {
		me := s.cur
		if m.held {
			// the operation cannot execute: the thread is not enabled until the mutex is released
			s.blockLocked(me, m, "lock-wait")
			continue
		}
		// the mutex is free: acquiring it is a visible operation, others may go first
		s.mu.Unlock()
		Point("lock")
		s.mu.Lock()
		if !m.held {
			break
		}
	}
	me := s.cur
	m.held = true
	me.vc = joinVC(me.vc, m.rel)
	s.mu.Unlock()
}

func (m *Mutex) TryLock() bool {
	if !active.Load() {
		return m.real.TryLock()
	}
	Point("trylock")
	s := cur
	s.mu.Lock()
	defer s.mu.Unlock()
	if m.held {
		return false
	}
	m.held = true
	s.cur.vc = joinVC(s.cur.vc, m.rel)
	return true
}

func (m *Mutex) Unlock() {
	if !active.Load() {
		m.real.Unlock()
		return
	}
	s := cur
	s.mu.Lock()
	me := s.cur
	if !m.held {
		s.mu.Unlock()
		panic("vsched: unlock of unlocked mutex")
	}
	m.held = false
	m.rel = copyVC(me.vc)
	me.vc = tickVC(me.vc, me.id)
	s.wakeAllLocked(m)
	s.mu.Unlock()
	Point("unlock")
}

// ---------------------------------------------------------------------------
// RWMutex

type RWMutex struct {
	real    sync.RWMutex
	writer  bool
	readers int
	rel     []int // joined clock of every release
}

func (m *RWMutex) Lock() {
	if !active.Load() {
		m.real.Lock()
		return
	}
	Point("lock")
	s := cur
	s.mu.Lock()
	me := s.cur
	for m.writer || m.readers > 0 {
		s.blockLocked(me, m, "lock-wait")
		me = s.cur
	}
	m.writer = true
	me.vc = joinVC(me.vc, m.rel)
	s.mu.Unlock()
}

func (m *RWMutex) Unlock() {
	if !active.Load() {
		m.real.Unlock()
		return
	}
	s := cur
	s.mu.Lock()
	me := s.cur
	m.writer = false
	m.rel = joinVC(copyVC(m.rel), me.vc)
	me.vc = tickVC(me.vc, me.id)
	s.wakeAllLocked(m)
	s.mu.Unlock()
	Point("unlock")
}

func (m *RWMutex) RLock() {
	if !active.Load() {
		m.real.RLock()
		return
	}
	Point("rlock")
	s := cur
	s.mu.Lock()
	me := s.cur
	for m.writer {
		s.blockLocked(me, m, "rlock-wait")
		me = s.cur
	}
	m.readers++
	me.vc = joinVC(me.vc, m.rel)
	s.mu.Unlock()
}

func (m *RWMutex) RUnlock() {
	if !active.Load() {
		m.real.RUnlock()
		return
	}
	s := cur
	s.mu.Lock()
	me := s.cur
	m.readers--
	m.rel = joinVC(copyVC(m.rel), me.vc)
	me.vc = tickVC(me.vc, me.id)
	s.wakeAllLocked(m)
	s.mu.Unlock()
	Point("runlock")
}

func (m *RWMutex) TryLock() bool {
	if !active.Load() {
		return m.real.TryLock()
	}
	s := cur
	s.mu.Lock()
	defer s.mu.Unlock()
	if m.writer || m.readers > 0 {
		return false
	}
	m.writer = true
	s.cur.vc = joinVC(s.cur.vc, m.rel)
	return true
}

func (m *RWMutex) TryRLock() bool {
	if !active.Load() {
		return m.real.TryRLock()
	}
	s := cur
	s.mu.Lock()
	defer s.mu.Unlock()
	if m.writer {
		return false
	}
	m.readers++
	s.cur.vc = joinVC(s.cur.vc, m.rel)
	return true
}

func (m *RWMutex) RLocker() Locker { return (*rlocker)(m) }

type rlocker RWMutex

func (r *rlocker) Lock()   { (*RWMutex)(r).RLock() }
func (r *rlocker) Unlock() { (*RWMutex)(r).RUnlock() }

// ---------------------------------------------------------------------------
// WaitGroup

type WaitGroup struct {
	real sync.WaitGroup
	n    int
	rel  []int
}

func (w *WaitGroup) Add(d int) {
	if !active.Load() {
		w.real.Add(d)
		return
	}
	s := cur
	s.mu.Lock()
	me := s.cur
	w.n += d
	if w.n < 0 {
		s.mu.Unlock()
		panic("vsched: negative WaitGroup counter")
	}
	if d < 0 {
		w.rel = joinVC(copyVC(w.rel), me.vc)
		me.vc = tickVC(me.vc, me.id)
	}
	if w.n == 0 {
		s.wakeAllLocked(w)
	}
	s.mu.Unlock()
	Point("wg")
}

func (w *WaitGroup) Done() { w.Add(-1) }

func (w *WaitGroup) Wait() {
	if !active.Load() {
		w.real.Wait()
		return
	}
	Point("wg-wait")
	s := cur
	s.mu.Lock()
	me := s.cur
	for w.n > 0 {
		s.blockLocked(me, w, "wg-block")
		me = s.cur
	}
	me.vc = joinVC(me.vc, w.rel)
	s.mu.Unlock()
}

// Go is the method form (sync.WaitGroup.Go of newer toolchains).
func (w *WaitGroup) Go(f func()) {
	w.Add(1)
	Go(func() {
		defer w.Done()
		f()
	})
}
