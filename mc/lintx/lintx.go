// Package lintx drives falco's real linter in-process over in-memory modules.
package lintx

import (
	"fmt"
	"runtime/debug"
	"sort"
	"strings"

	"github.com/pkg/errors"
	"github.com/ysugimoto/falco/v2/ast"
	"github.com/ysugimoto/falco/v2/config"
	"github.com/ysugimoto/falco/v2/lexer"
	"github.com/ysugimoto/falco/v2/linter"
	lcontext "github.com/ysugimoto/falco/v2/linter/context"
	"github.com/ysugimoto/falco/v2/parser"
	"github.com/ysugimoto/falco/v2/resolver"
)

// MemResolver resolves includes from a map of module name -> source.
type MemResolver struct {
	Main    string
	Modules map[string]string
}

func (m *MemResolver) MainVCL() (*resolver.VCL, error) {
	return &resolver.VCL{Name: "main.vcl", Data: m.Main}, nil
}

func (m *MemResolver) Resolve(stmt *ast.IncludeStatement) (*resolver.VCL, error) {
	name := stmt.Module.Value
	for _, k := range []string{name, name + ".vcl"} {
		if src, ok := m.Modules[k]; ok {
			return &resolver.VCL{Name: k, Data: src}, nil
		}
	}
	return nil, errors.New("Failed to resolve include file: " + name)
}

func (m *MemResolver) Name() string           { return "mem" }
func (m *MemResolver) IncludePaths() []string { return nil }

// Diag is one diagnostic.
type Diag struct {
	Rule     string
	Severity string
	Message  string
	File     string
	Line     int
	Pos      int
}

// Key without location.
func (d Diag) Key() string { return d.Severity + "|" + d.Rule + "|" + d.Message }

// Result of one lint run.
type Result struct {
	ParseErr  error  // main does not parse
	Fatal     string // fatal error reported by the linter (include parse error etc.)
	Diags     []Diag
	PanicSite string
	PanicMsg  string
}

// Keys returns the sorted multiset of diagnostics without locations.
func (r Result) Keys() []string {
	ks := make([]string, 0, len(r.Diags))
	for _, d := range r.Diags {
		ks = append(ks, d.Key())
	}
	sort.Strings(ks)
	return ks
}

// KeysLoc returns the sorted multiset of diagnostics with locations.
func (r Result) KeysLoc() []string {
	ks := make([]string, 0, len(r.Diags))
	for _, d := range r.Diags {
		ks = append(ks, fmt.Sprintf("%s|%s:%d:%d", d.Key(), d.File, d.Line, d.Pos))
	}
	sort.Strings(ks)
	return ks
}

// Lint parses main (as VCL or snippet, like the CLI) and lints it.
func Lint(main string, modules map[string]string) (res Result) {
	lx := lexer.NewFromString(main, lexer.WithFile("main.vcl"))
	vcl, err := parser.New(lx).ParseVCLOrSnippet()
	if err != nil {
		res.ParseErr = err
		return res
	}
	return LintAST(vcl, main, modules)
}

// LintAST lints an already parsed program.
func LintAST(vcl *ast.VCL, main string, modules map[string]string) (res Result) {
	defer func() {
		if r := recover(); r != nil {
			res.PanicSite = panicSite(string(debug.Stack()))
			res.PanicMsg = fmt.Sprint(r)
		}
	}()
	rs := &MemResolver{Main: main, Modules: modules}
	ctx := lcontext.New(lcontext.WithResolver(rs))
	lt := linter.New(&config.LinterConfig{})
	lt.Lint(vcl, ctx)
	if lt.FatalError != nil {
		res.Fatal = fmt.Sprint(lt.FatalError.Error)
	}
	for _, e := range lt.Errors {
		res.Diags = append(res.Diags, Diag{Rule: string(e.Rule), Severity: string(e.Severity), Message: e.Message, File: e.Token.File, Line: e.Token.Line, Pos: e.Token.Position})
	}
	return res
}

func panicSite(stack string) string {
	lines := strings.Split(stack, "\n")
	seen := false
	for _, l := range lines {
		if strings.HasPrefix(l, "panic(") {
			seen = true
			continue
		}
		if !seen || strings.HasPrefix(l, "\t") || strings.HasPrefix(l, "runtime.") || strings.Contains(l, "zzverif/") {
			continue
		}
		if j := strings.LastIndex(l, "("); j > 0 {
			l = l[:j]
		}
		return strings.TrimPrefix(l, "github.com/ysugimoto/falco/v2/")
	}
	return "?"
}
