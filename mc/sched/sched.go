// Package sched is the stateless, preemption-bounded depth-first explorer over
// executions of the controlled scheduler (zzverif/vsched).
package sched

import (
	"fmt"

	"github.com/ysugimoto/falco/v2/zzverif/vsched"
)

// Stats of one exploration.
type Stats struct {
	Executions   int64
	Points       int64 // recorded choice points over all executions (transitions with an alternative)
	AllPoints    int64 // every scheduling point reached
	MaxThreads   int
	MaxChoiceLen int
	Bound        int
	Capped       bool // execution cap or per-execution point cap reached: not exhaustive within the bound
	Diverged     int
}

// Explorer explores every schedule with at most Bound preemptions.
type Explorer struct {
	Bound     int // < 0: unbounded
	MaxPoints int // per execution (0 = none)
	MaxExec   int64
	// Run performs one execution under vsched.Run(prefix, ...) and returns its trace.
	Run func(prefix []int) vsched.Trace
	// Visit is called once per execution; returning false stops the exploration.
	Visit func(prefix []int, tr vsched.Trace) bool
	Stats Stats
	stop  bool
}

func (e *Explorer) Explore() Stats {
	e.Stats.Bound = e.Bound
	e.explore(nil)
	return e.Stats
}

func (e *Explorer) explore(prefix []int) {
	if e.stop {
		return
	}
	if e.MaxExec > 0 && e.Stats.Executions >= e.MaxExec {
		e.Stats.Capped = true
		e.stop = true
		return
	}
	tr := e.Run(prefix)
	e.Stats.Executions++
	e.Stats.Points += int64(len(tr.Points))
	e.Stats.AllPoints += tr.AllPoints
	if tr.Threads > e.Stats.MaxThreads {
		e.Stats.MaxThreads = tr.Threads
	}
	if len(tr.Choices) > e.Stats.MaxChoiceLen {
		e.Stats.MaxChoiceLen = len(tr.Choices)
	}
	if tr.Capped {
		e.Stats.Capped = true
	}
	if tr.Diverged != "" {
		e.Stats.Diverged++
	}
	if !e.Visit(prefix, tr) {
		e.stop = true
		return
	}
	cost := 0
	for i := 0; i < len(tr.Points); i++ {
		p := tr.Points[i]
		if i >= len(prefix) {
			for alt := 1; alt < len(p.Enabled); alt++ {
				c := cost
				if p.Running >= 0 {
					c++ // switching away from a runnable thread is a preemption
				}
				if e.Bound >= 0 && c > e.Bound {
					continue
				}
				np := append(append([]int{}, tr.Choices[:i]...), alt)
				e.explore(np)
				if e.stop {
					return
				}
			}
		}
		if p.Running >= 0 && p.Chosen != 0 {
			cost++
		}
	}
}

// Describe renders a schedule for humans.
func Describe(tr vsched.Trace) string {
	s := ""
	for i, p := range tr.Points {
		if p.Chosen != 0 {
			s += fmt.Sprintf("[%d:%s t%d->t%d] ", i, p.Kind, p.Running, p.Enabled[p.Chosen])
		}
	}
	if s == "" {
		s = "(default schedule)"
	}
	return s
}
