// plugstub is the lint plugin used by the C18 harness. Installed under the names
// falco-p1 .. falco-p4; `falco-pN <n>` answers n diagnostics "pN-<i>", `falco-pN fail`
// exits non-zero, `falco-pN garbage` answers something that is not JSON.
package main

import (
	"encoding/json"
	"fmt"
	"io"
	"os"
	"path/filepath"
	"strconv"
	"strings"
)

type perr struct {
	Severity int
	Message  string
}

func main() {
	io.Copy(io.Discard, os.Stdin)
	name := strings.TrimPrefix(filepath.Base(os.Args[0]), "falco-")
	arg := "1"
	if len(os.Args) > 1 {
		arg = os.Args[1]
	}
	switch arg {
	case "fail":
		fmt.Fprintln(os.Stderr, name+" failed")
		os.Exit(3)
	case "garbage":
		fmt.Println("not json")
		return
	}
	n, _ := strconv.Atoi(arg)
	out := struct {
		Errors []perr `json:"errors"`
	}{Errors: []perr{}}
	for i := 0; i < n; i++ {
		out.Errors = append(out.Errors, perr{Severity: 1 + i%3, Message: fmt.Sprintf("%s-%d", name, i)})
	}
	json.NewEncoder(os.Stdout).Encode(out)
}
