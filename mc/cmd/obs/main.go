package main

import (
	"fmt"
	"io"
	"os"

	"verif/mc/sim"
)

func main() {
	b, _ := io.ReadAll(os.Stdin)
	sim.InstallStub()
	ip, cap := sim.NewServer(string(b))
	for i := 0; i < 2; i++ {
		o := sim.Observe(ip, "GET", "http://example.com/a?b=1", [][2]string{{"X-Req", "1"}})
		fmt.Println(o.String())
	}
	fmt.Println(cap.Messages)
}
