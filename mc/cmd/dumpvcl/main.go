package main

import (
	"crypto/sha1"
	"fmt"
	"io"
	"os"

	"github.com/ysugimoto/falco/v2/ast/codec"
	"github.com/ysugimoto/falco/v2/lexer"
	"github.com/ysugimoto/falco/v2/parser"
	"verif/mc/engine"
	"verif/mc/gen"
)

func main() {
	if len(os.Args) > 1 && os.Args[1] == "seeds" {
		h := sha1.New()
		n := 0
		engine.Explore(0, 0, func(c *engine.C) {
			root := gen.G{C: c}.Program(1)
			src := gen.Source(root)
			vcl, err := parser.New(lexer.NewFromString(src)).ParseVCL()
			if err != nil {
				return
			}
			b, err := codec.NewEncoder().Encodes(vcl.Statements)
			if err != nil {
				return
			}
			n++
			h.Write(b)
			fmt.Printf("%d %x %q\n", n, sha1.Sum(b), src[:10])
		})
		fmt.Printf("%d %x\n", n, h.Sum(nil))
		if len(os.Args) > 2 {
			return
		}
		// disturb the pools with other encodes, then do it again
		engine.Explore(2, 0, func(c *engine.C) {
			root := gen.G{C: c}.Program(1)
			vcl, err := parser.New(lexer.NewFromString(gen.Source(root))).ParseVCL()
			if err != nil {
				return
			}
			codec.NewEncoder().Encodes(vcl.Statements)
			for _, st := range vcl.Statements {
				codec.NewEncoder().Encode(st)
			}
		})
		os.Args = append(os.Args, "again")
		main()
		return
	}
	b, _ := io.ReadAll(os.Stdin)
	vcl, err := parser.New(lexer.NewFromString(string(b))).ParseVCL()
	if err != nil {
		fmt.Println("ERR", err)
		return
	}
	for _, s := range vcl.Statements {
		fmt.Println(gen.Dump(s, nil).String())
	}
}
