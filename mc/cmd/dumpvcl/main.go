package main

import (
	"fmt"
	"io"
	"os"

	"github.com/ysugimoto/falco/v2/lexer"
	"github.com/ysugimoto/falco/v2/parser"
	"verif/mc/gen"
)

func main() {
	b, _ := io.ReadAll(os.Stdin)
	vcl, err := parser.New(lexer.NewFromString(string(b))).ParseVCL()
	if err != nil {
		fmt.Println("ERR", err)
		return
	}
	for _, s := range vcl.Statements {
		fmt.Println(gen.Dump(s, nil).String())
	}
}
