package main

import (
	_ "verif/mc/checks/c01"
	_ "verif/mc/checks/c02"
	_ "verif/mc/checks/c04"
	_ "verif/mc/checks/c05"
	_ "verif/mc/checks/c06"
	_ "verif/mc/checks/c07"
	_ "verif/mc/checks/c08"
	_ "verif/mc/checks/c09"
	_ "verif/mc/checks/c10"
	_ "verif/mc/checks/c11"
	_ "verif/mc/checks/c12"
	_ "verif/mc/checks/fmt3"
	_ "verif/mc/checks/c13"
	_ "verif/mc/checks/c16"
	_ "verif/mc/checks/c17"
	_ "verif/mc/checks/c18"
	_ "verif/mc/checks/c19"
	_ "verif/mc/checks/c20"
	"verif/mc/engine"
)

func main() { engine.Main() }
