// instr: source-to-source instrumenter. Reads packages from the CURRENT /repo
// tree, rewrites them and emits a `go build -overlay` file, so /repo itself is
// never modified and instrumentation always reflects the tree under test.
//
// usage: instr -repo /repo -out DIR -shims /verif/mc/shim [-fuel pkg,pkg] [-sync pkg,pkg] [-maporder pkg,pkg] [-clock pkg,...]
package main

import (
	"bytes"
	"encoding/json"
	"flag"
	"fmt"
	"go/ast"
	"go/format"
	"go/parser"
	"go/token"
	"os"
	"path/filepath"
	"regexp"
	"sort"
	"strconv"
	"strings"
)

const modPath = "github.com/ysugimoto/falco/v2"

var (
	repo   = flag.String("repo", "/repo", "repository root")
	out    = flag.String("out", "", "output directory for rewritten files and overlay.json")
	shims  = flag.String("shims", "", "directory holding shim package sources (one sub-directory each)")
	fuelP  = flag.String("fuel", "", "comma-separated package dirs (relative to repo) that get fuel ticks")
	syncP  = flag.String("sync", "", "package dirs whose sync import and go statements are shimmed")
	mapP   = flag.String("maporder", "", "package dirs whose range-over-map loops go through the map-order seam")
	clockP = flag.String("clock", "", "package dirs whose time.Now goes through the clock seam")
	rmwP   = flag.String("rmw", "", "package dirs whose read-modify-write statements on fields / package variables are split around a scheduling point")
	rmwQ   = flag.String("rmwquiet", "", "package dirs (subset of -rmw) whose read-modify-write sites are checked for races but are not scheduling points")
	pointR = flag.String("pointre", "", "semicolon-separated pkgdir=regexp entries: functions (Recv.Method or Func) matching get a scheduling point at entry")
	pointF = flag.String("points", "", "comma-separated pkgdir:FuncOrRecv.Method entries that get a scheduling point at entry")
)

type fileJob struct {
	path                     string
	fuel, sync, mapo, clock  bool
	rmw                      bool
	points                   map[string]bool
	pointRe                  *regexp.Regexp
}

func main() {
	flag.Parse()
	if *out == "" {
		fmt.Fprintln(os.Stderr, "instr: -out required")
		os.Exit(2)
	}
	os.MkdirAll(*out, 0o755)
	jobs := map[string]*fileJob{}
	addPkgs := func(list string, set func(*fileJob)) {
		for _, p := range strings.Split(list, ",") {
			p = strings.TrimSpace(p)
			if p == "" {
				continue
			}
			dirs := []string{p}
			if strings.HasSuffix(p, "/...") {
				dirs = nil
				root := filepath.Join(*repo, strings.TrimSuffix(p, "/..."))
				filepath.Walk(root, func(path string, info os.FileInfo, err error) error {
					if err == nil && info.IsDir() {
						rel, _ := filepath.Rel(*repo, path)
						dirs = append(dirs, rel)
					}
					return nil
				})
			}
			for _, d := range dirs {
				ents, err := os.ReadDir(filepath.Join(*repo, d))
				if err != nil {
					fmt.Fprintln(os.Stderr, "instr:", err)
					os.Exit(2)
				}
				for _, e := range ents {
					n := e.Name()
					if e.IsDir() || !strings.HasSuffix(n, ".go") || strings.HasSuffix(n, "_test.go") {
						continue
					}
					fp := filepath.Join(*repo, d, n)
					j := jobs[fp]
					if j == nil {
						j = &fileJob{path: fp, points: map[string]bool{}}
						jobs[fp] = j
					}
					set(j)
				}
			}
		}
	}
	addPkgs(*fuelP, func(j *fileJob) { j.fuel = true })
	addPkgs(*syncP, func(j *fileJob) { j.sync = true })
	addPkgs(*mapP, func(j *fileJob) { j.mapo = true })
	addPkgs(*clockP, func(j *fileJob) { j.clock = true })
	addPkgs(*rmwP, func(j *fileJob) { j.rmw = true })
	pointSet := map[string]map[string]bool{}
	for _, e := range strings.Split(*pointF, ",") {
		e = strings.TrimSpace(e)
		if e == "" {
			continue
		}
		kv := strings.SplitN(e, ":", 2)
		if pointSet[kv[0]] == nil {
			pointSet[kv[0]] = map[string]bool{}
		}
		pointSet[kv[0]][kv[1]] = true
	}

	pointRes := map[string]*regexp.Regexp{}
	for _, e := range strings.Split(*pointR, ";") {
		e = strings.TrimSpace(e)
		if e == "" {
			continue
		}
		kv := strings.SplitN(e, "=", 2)
		pointRes[kv[0]] = regexp.MustCompile(kv[1])
		// make sure the package's files are visited
		addPkgs(kv[0], func(j *fileJob) {})
	}

	overlay := map[string]string{}
	paths := make([]string, 0, len(jobs))
	for p := range jobs {
		paths = append(paths, p)
	}
	sort.Strings(paths)
	stats := map[string]int{}
	for _, p := range paths {
		j := jobs[p]
		rel, _ := filepath.Rel(*repo, p)
		j.points = pointSet[filepath.Dir(rel)]
		j.pointRe = pointRes[filepath.Dir(rel)]
		src, changed, err := rewrite(j, stats)
		if err != nil {
			fmt.Fprintf(os.Stderr, "instr: %s: %v\n", p, err)
			os.Exit(2)
		}
		if !changed {
			continue
		}
		dst := filepath.Join(*out, "src", rel)
		os.MkdirAll(filepath.Dir(dst), 0o755)
		if err := os.WriteFile(dst, src, 0o644); err != nil {
			fmt.Fprintln(os.Stderr, "instr:", err)
			os.Exit(2)
		}
		overlay[p] = dst
	}
	// virtual shim packages inside falco's module path
	if *shims != "" {
		ents, _ := os.ReadDir(*shims)
		for _, e := range ents {
			if !e.IsDir() {
				continue
			}
			files, _ := os.ReadDir(filepath.Join(*shims, e.Name()))
			for _, f := range files {
				if strings.HasSuffix(f.Name(), ".go") && !strings.HasSuffix(f.Name(), "_test.go") {
					overlay[filepath.Join(*repo, "zzverif", e.Name(), f.Name())] = filepath.Join(*shims, e.Name(), f.Name())
				}
			}
		}
	}
	b, _ := json.MarshalIndent(map[string]any{"Replace": overlay}, "", " ")
	if err := os.WriteFile(filepath.Join(*out, "overlay.json"), b, 0o644); err != nil {
		fmt.Fprintln(os.Stderr, "instr:", err)
		os.Exit(2)
	}
	sb, _ := json.Marshal(stats)
	os.WriteFile(filepath.Join(*out, "instr-stats.json"), sb, 0o644)
	fmt.Printf("instr: %d files rewritten, %s\n", len(overlay), sb)
}

func callStmt(pkg, fn string, args ...ast.Expr) ast.Stmt {
	return &ast.ExprStmt{X: &ast.CallExpr{Fun: &ast.SelectorExpr{X: ast.NewIdent(pkg), Sel: ast.NewIdent(fn)}, Args: args}}
}

func strLit(s string) ast.Expr { return &ast.BasicLit{Kind: token.STRING, Value: strconv.Quote(s)} }

var typed = map[string]*mapSites{} // by package dir (relative)

func rewrite(j *fileJob, stats map[string]int) ([]byte, bool, error) {
	fset := token.NewFileSet()
	var f *ast.File
	var err error
	rel, _ := filepath.Rel(*repo, j.path)
	changed := false
	need := map[string]string{} // alias -> import path
	if j.mapo {
		d := filepath.Dir(rel)
		ms := typed[d]
		if ms == nil {
			ms, err = typeCheckDir(*repo, d)
			if err != nil {
				return nil, false, err
			}
			typed[d] = ms
		}
		fset, f = ms.fset, ms.files[j.path]
		if f == nil {
			return nil, false, fmt.Errorf("file not in type-checked package")
		}
		n, sk := ms.rewriteMapRanges(f, rel)
		stats["map_range_sites"] += n
		stats["map_range_skipped"] += sk
		if n > 0 {
			changed = true
			need["zzvmap"] = modPath + "/zzverif/vmap"
		}
	} else {
		f, err = parser.ParseFile(fset, j.path, nil, parser.ParseComments)
		if err != nil {
			return nil, false, err
		}
	}

	if j.sync {
		for _, im := range f.Imports {
			if im.Path.Value == `"sync"` {
				im.Path.Value = strconv.Quote(modPath + "/zzverif/vsched")
				if im.Name == nil {
					im.Name = ast.NewIdent("sync")
				}
				changed = true
				stats["sync_imports"]++
			}
		}
	}

	recvName := func(fd *ast.FuncDecl) string {
		if fd.Recv == nil || len(fd.Recv.List) == 0 {
			return fd.Name.Name
		}
		t := fd.Recv.List[0].Type
		if st, ok := t.(*ast.StarExpr); ok {
			t = st.X
		}
		if id, ok := t.(*ast.Ident); ok {
			return id.Name + "." + fd.Name.Name
		}
		return fd.Name.Name
	}

	var curFunc string
	var walk func(n ast.Node) bool
	tick := func(body *ast.BlockStmt) {
		if body == nil {
			return
		}
		body.List = append([]ast.Stmt{callStmt("zzfuel", "Tick")}, body.List...)
		need["zzfuel"] = modPath + "/zzverif/fuel"
		changed = true
		stats["fuel_ticks"]++
	}
	walk = func(n ast.Node) bool {
		switch t := n.(type) {
		case *ast.FuncDecl:
			curFunc = recvName(t)
			if t.Body != nil {
				if (j.points != nil && j.points[curFunc]) || (j.pointRe != nil && j.pointRe.MatchString(curFunc)) {
					t.Body.List = append([]ast.Stmt{callStmt("zzsched", "Point", strLit(filepath.Dir(rel)+"."+curFunc))}, t.Body.List...)
					need["zzsched"] = modPath + "/zzverif/vsched"
					changed = true
					stats["points"]++
				}
				if j.fuel {
					tick(t.Body)
				}
			}
		case *ast.FuncLit:
			if j.fuel {
				tick(t.Body)
			}
		case *ast.ForStmt:
			if j.fuel {
				tick(t.Body)
			}
		case *ast.RangeStmt:
			if j.fuel {
				tick(t.Body)
			}
		case *ast.GoStmt:
			if j.sync {
				// go f(x) -> zzsched.Go(func(){ f(x) }) ; arguments of the call are evaluated
				// first (as the language requires) by binding them in an enclosing closure call.
				need["zzsched"] = modPath + "/zzverif/vsched"
				changed = true
				stats["go_stmts"]++
			}
		}
		return true
	}
	ast.Inspect(f, walk)

	if j.sync {
		rewriteGo(f)
		if n := rewriteChan(f); n > 0 {
			need["zzsched"] = modPath + "/zzverif/vsched"
			changed = true
			stats["chan_ops"] += n
		}
	}
	if j.rmw {
		if n := rewriteRMW(fset, f, rel); n > 0 {
			need["zzsched"] = modPath + "/zzverif/vsched"
			changed = true
			stats["rmw_sites"] += n
		}
	}
	if j.clock {
		if rewriteClock(f) {
			need["zzclock"] = modPath + "/zzverif/vclock"
			changed = true
			stats["clock_sites"]++
		}
	}
	if !changed {
		return nil, false, nil
	}
	// add imports
	aliases := make([]string, 0, len(need))
	for a := range need {
		aliases = append(aliases, a)
	}
	sort.Strings(aliases)
	var imps []ast.Decl
	for _, a := range aliases {
		imps = append(imps, &ast.GenDecl{Tok: token.IMPORT, Specs: []ast.Spec{
			&ast.ImportSpec{Name: ast.NewIdent(a), Path: &ast.BasicLit{Kind: token.STRING, Value: strconv.Quote(need[a])}}}})
	}
	// imports must precede other declarations
	f.Decls = append(imps, f.Decls...)
	var buf bytes.Buffer
	// drop free-floating comments: positions of inserted nodes confuse the printer
	// (doc comments and //go: directives attached to declarations are kept)
	f.Comments = keepDirectiveComments(f)
	if err := format.Node(&buf, fset, f); err != nil {
		return nil, false, err
	}
	return buf.Bytes(), true, nil
}

func keepDirectiveComments(f *ast.File) []*ast.CommentGroup {
	var out []*ast.CommentGroup
	for _, cg := range f.Comments {
		keep := false
		for _, c := range cg.List {
			if strings.HasPrefix(c.Text, "//go:") || strings.HasPrefix(c.Text, "// +build") {
				keep = true
			}
		}
		if keep && cg.End() < f.Package {
			out = append(out, cg)
		}
	}
	// doc comments carrying go: directives (go:embed, go:generate) on declarations
	for _, d := range f.Decls {
		switch t := d.(type) {
		case *ast.GenDecl:
			if t.Doc != nil && hasDirective(t.Doc) {
				out = append(out, t.Doc)
			} else {
				t.Doc = nil
			}
			for _, s := range t.Specs {
				switch sp := s.(type) {
				case *ast.ValueSpec:
					if sp.Doc != nil && hasDirective(sp.Doc) {
						out = append(out, sp.Doc)
					} else {
						sp.Doc = nil
					}
					sp.Comment = nil
				case *ast.TypeSpec:
					sp.Doc, sp.Comment = nil, nil
				case *ast.ImportSpec:
					sp.Doc, sp.Comment = nil, nil
				}
			}
		case *ast.FuncDecl:
			if t.Doc != nil && hasDirective(t.Doc) {
				out = append(out, t.Doc)
			} else {
				t.Doc = nil
			}
		}
	}
	sort.Slice(out, func(i, j int) bool { return out[i].Pos() < out[j].Pos() })
	// struct field comments etc. are dropped by clearing them
	ast.Inspect(f, func(n ast.Node) bool {
		if fl, ok := n.(*ast.Field); ok {
			fl.Doc, fl.Comment = nil, nil
		}
		return true
	})
	return out
}

func hasDirective(cg *ast.CommentGroup) bool {
	for _, c := range cg.List {
		if strings.HasPrefix(c.Text, "//go:") {
			return true
		}
	}
	return false
}

// rewriteGo turns `go call(args...)` into
// `func(a0 T0..){ zzsched.Go(func(){ call(a0..) }) }(args...)` — without type
// information the simplest faithful form is: evaluate nothing early when the
// call has no arguments or is a func literal call whose arguments are plain
// identifiers; otherwise bind via a func literal with the same argument list.
func rewriteGo(f *ast.File) {
	ast.Inspect(f, func(n ast.Node) bool {
		var list []ast.Stmt
		switch t := n.(type) {
		case *ast.BlockStmt:
			list = t.List
		case *ast.CaseClause:
			list = t.Body
		case *ast.CommClause:
			list = t.Body
		default:
			return true
		}
		for i, st := range list {
			gs, ok := st.(*ast.GoStmt)
			if !ok {
				continue
			}
			call := gs.Call
			// Common shape in falco: go func(x T){...}(x). Arguments are identifiers or
			// selector expressions; evaluating them inside the new goroutine's thunk
			// before it is scheduled is equivalent because zzsched.Go evaluates the thunk
			// argument list eagerly: we pass a closure that captures copies.
			var pre []ast.Stmt
			var args []ast.Expr
			for k, a := range call.Args {
				nm := ast.NewIdent(fmt.Sprintf("zzarg%d_%d", i, k))
				pre = append(pre, &ast.AssignStmt{Lhs: []ast.Expr{nm}, Tok: token.DEFINE, Rhs: []ast.Expr{a}})
				args = append(args, nm)
			}
			inner := &ast.CallExpr{Fun: call.Fun, Args: args, Ellipsis: call.Ellipsis}
			thunk := &ast.FuncLit{Type: &ast.FuncType{Params: &ast.FieldList{}}, Body: &ast.BlockStmt{List: []ast.Stmt{&ast.ExprStmt{X: inner}}}}
			goCall := callStmt("zzsched", "Go", thunk)
			list[i] = &ast.BlockStmt{List: append(pre, goCall)}
		}
		return true
	})
}

func rewriteClock(f *ast.File) bool {
	hit := false
	ast.Inspect(f, func(n ast.Node) bool {
		se, ok := n.(*ast.SelectorExpr)
		if !ok {
			return true
		}
		if id, ok := se.X.(*ast.Ident); ok && id.Name == "time" && id.Obj == nil && se.Sel.Name == "Now" {
			id.Name = "zzclock"
			hit = true
		}
		return true
	})
	if hit {
		// keep the time import used
		f.Decls = append(f.Decls, &ast.GenDecl{Tok: token.VAR, Specs: []ast.Spec{&ast.ValueSpec{
			Names: []*ast.Ident{ast.NewIdent("_")}, Values: []ast.Expr{&ast.SelectorExpr{X: ast.NewIdent("time"), Sel: ast.NewIdent("Now")}}}}})
	}
	return hit
}

// pureChain: identifier or selector chain of identifiers (evaluating it twice is harmless).
func pureChain(e ast.Expr) bool {
	switch t := e.(type) {
	case *ast.Ident:
		return true
	case *ast.SelectorExpr:
		return pureChain(t.X)
	case *ast.ParenExpr:
		return pureChain(t.X)
	case *ast.StarExpr:
		return pureChain(t.X)
	}
	return false
}

func exprText(fset *token.FileSet, e ast.Expr) string {
	var b bytes.Buffer
	format.Node(&b, fset, e)
	return b.String()
}

// sharedLvalue: a field (selector chain) or a package-level variable of this file.
func sharedLvalue(e ast.Expr) bool {
	switch t := e.(type) {
	case *ast.SelectorExpr:
		return pureChain(t.X)
	case *ast.Ident:
		if t.Obj == nil || t.Obj.Kind != ast.Var {
			return false
		}
		vs, ok := t.Obj.Decl.(*ast.ValueSpec)
		return ok && fileLevel[vs]
	}
	return false
}

var fileLevel = map[*ast.ValueSpec]bool{}

var binOf = map[token.Token]token.Token{
	token.ADD_ASSIGN: token.ADD, token.SUB_ASSIGN: token.SUB, token.MUL_ASSIGN: token.MUL, token.QUO_ASSIGN: token.QUO,
	token.REM_ASSIGN: token.REM, token.AND_ASSIGN: token.AND, token.OR_ASSIGN: token.OR, token.XOR_ASSIGN: token.XOR,
	token.SHL_ASSIGN: token.SHL, token.SHR_ASSIGN: token.SHR, token.AND_NOT_ASSIGN: token.AND_NOT,
}

// rewriteRMW splits   X = append(X, ...)  /  X++  /  X op= e   (X a field or package variable) into
//
//	{ zzt := X; zzsched.RMW(&X, site); X = append(zzt, ...) }
//
// so that the gap between the read and the write, which exists at machine level, is a
// scheduling point and both halves are visible to the happens-before race check.
func rewriteRMW(fset *token.FileSet, f *ast.File, rel string) int {
	for _, d := range f.Decls {
		if gd, ok := d.(*ast.GenDecl); ok && gd.Tok == token.VAR {
			for _, sp := range gd.Specs {
				if vs, ok := sp.(*ast.ValueSpec); ok {
					fileLevel[vs] = true
				}
			}
		}
	}
	n := 0
	seq := 0
	ast.Inspect(f, func(nd ast.Node) bool {
		var list []ast.Stmt
		switch t := nd.(type) {
		case *ast.BlockStmt:
			list = t.List
		case *ast.CaseClause:
			list = t.Body
		case *ast.CommClause:
			list = t.Body
		default:
			return true
		}
		for i, st := range list {
			var x ast.Expr
			var mk func(old ast.Expr) ast.Stmt
			switch t := st.(type) {
			case *ast.AssignStmt:
				if len(t.Lhs) != 1 || len(t.Rhs) != 1 || !sharedLvalue(t.Lhs[0]) {
					continue
				}
				if t.Tok == token.ASSIGN {
					call, ok := t.Rhs[0].(*ast.CallExpr)
					if !ok || len(call.Args) == 0 {
						continue
					}
					if id, ok := call.Fun.(*ast.Ident); !ok || id.Name != "append" {
						continue
					}
					if exprText(fset, call.Args[0]) != exprText(fset, t.Lhs[0]) {
						continue
					}
					x = t.Lhs[0]
					mk = func(old ast.Expr) ast.Stmt {
						args := append([]ast.Expr{old}, call.Args[1:]...)
						return &ast.AssignStmt{Lhs: []ast.Expr{x}, Tok: token.ASSIGN, Rhs: []ast.Expr{&ast.CallExpr{Fun: call.Fun, Args: args, Ellipsis: call.Ellipsis}}}
					}
				} else if op, ok := binOf[t.Tok]; ok {
					x = t.Lhs[0]
					rhs := t.Rhs[0]
					mk = func(old ast.Expr) ast.Stmt {
						return &ast.AssignStmt{Lhs: []ast.Expr{x}, Tok: token.ASSIGN, Rhs: []ast.Expr{&ast.BinaryExpr{X: old, Op: op, Y: &ast.ParenExpr{X: rhs}}}}
					}
				} else {
					continue
				}
			case *ast.IncDecStmt:
				if !sharedLvalue(t.X) {
					continue
				}
				x = t.X
				op := token.ADD
				if t.Tok == token.DEC {
					op = token.SUB
				}
				mk = func(old ast.Expr) ast.Stmt {
					return &ast.AssignStmt{Lhs: []ast.Expr{x}, Tok: token.ASSIGN, Rhs: []ast.Expr{&ast.BinaryExpr{X: old, Op: op, Y: &ast.BasicLit{Kind: token.INT, Value: "1"}}}}
				}
			default:
				continue
			}
			seq++
			tmp := ast.NewIdent(fmt.Sprintf("zzrmw%d", seq))
			site := fmt.Sprintf("%s:%d %s", rel, fset.Position(st.Pos()).Line, exprText(fset, x))
			fn := "RMW"
			for _, q := range strings.Split(*rmwQ, ",") {
				if q != "" && filepath.Dir(rel) == q {
					fn = "RMWQuiet"
				}
			}
			list[i] = &ast.BlockStmt{List: []ast.Stmt{
				&ast.AssignStmt{Lhs: []ast.Expr{tmp}, Tok: token.DEFINE, Rhs: []ast.Expr{x}},
				callStmt("zzsched", fn, &ast.UnaryExpr{Op: token.AND, X: x}, strLit(site)),
				mk(tmp),
			}}
			n++
		}
		return true
	})
	return n
}

// rewriteChan: receive expressions -> zzsched.RecvV / RecvV2, send statements -> zzsched.SendF, close(ch) -> zzsched.CloseF.
// select statements are left alone (their comm clauses must stay channel operations).
func rewriteChan(f *ast.File) int {
	n := 0
	sel := func(name string) ast.Expr { return &ast.SelectorExpr{X: ast.NewIdent("zzsched"), Sel: ast.NewIdent(name)} }
	inSelect := map[ast.Node]bool{}
	ast.Inspect(f, func(nd ast.Node) bool {
		if cc, ok := nd.(*ast.CommClause); ok && cc.Comm != nil {
			ast.Inspect(cc.Comm, func(x ast.Node) bool {
				if x != nil {
					inSelect[x] = true
				}
				return true
			})
		}
		return true
	})
	// two-value receives first: v, ok := <-ch
	ast.Inspect(f, func(nd ast.Node) bool {
		as, ok := nd.(*ast.AssignStmt)
		if !ok || inSelect[as] || len(as.Lhs) != 2 || len(as.Rhs) != 1 {
			return true
		}
		if u, ok := as.Rhs[0].(*ast.UnaryExpr); ok && u.Op == token.ARROW {
			as.Rhs[0] = &ast.CallExpr{Fun: sel("RecvV2"), Args: []ast.Expr{u.X}}
			n++
		}
		return true
	})
	var fix func(e *ast.Expr)
	fix = func(e *ast.Expr) {
		if u, ok := (*e).(*ast.UnaryExpr); ok && u.Op == token.ARROW && !inSelect[u] {
			*e = &ast.CallExpr{Fun: sel("RecvV"), Args: []ast.Expr{u.X}}
			n++
		}
	}
	ast.Inspect(f, func(nd ast.Node) bool {
		switch t := nd.(type) {
		case *ast.ExprStmt:
			fix(&t.X)
		case *ast.AssignStmt:
			for i := range t.Rhs {
				fix(&t.Rhs[i])
			}
		case *ast.ReturnStmt:
			for i := range t.Results {
				fix(&t.Results[i])
			}
		case *ast.CallExpr:
			for i := range t.Args {
				fix(&t.Args[i])
			}
		case *ast.ValueSpec:
			for i := range t.Values {
				fix(&t.Values[i])
			}
		case *ast.BinaryExpr:
			fix(&t.X)
			fix(&t.Y)
		case *ast.IfStmt:
			fix(&t.Cond)
		}
		return true
	})
	// statements in lists: send and close
	generated := map[ast.Node]bool{}
	ast.Inspect(f, func(nd ast.Node) bool {
		if nd != nil && generated[nd] {
			return false
		}
		var list []ast.Stmt
		switch t := nd.(type) {
		case *ast.BlockStmt:
			list = t.List
		case *ast.CaseClause:
			list = t.Body
		case *ast.CommClause:
			list = t.Body
		default:
			return true
		}
		for i, st := range list {
			switch t := st.(type) {
			case *ast.SendStmt:
				thunk := &ast.FuncLit{Type: &ast.FuncType{Params: &ast.FieldList{}}, Body: &ast.BlockStmt{List: []ast.Stmt{&ast.SendStmt{Chan: t.Chan, Value: t.Value}}}}
				generated[thunk] = true
				list[i] = &ast.ExprStmt{X: &ast.CallExpr{Fun: sel("SendF"), Args: []ast.Expr{t.Chan, thunk}}}
				n++
			case *ast.ExprStmt:
				if call, ok := t.X.(*ast.CallExpr); ok {
					if id, ok := call.Fun.(*ast.Ident); ok && id.Name == "close" && len(call.Args) == 1 && id.Obj == nil {
						thunk := &ast.FuncLit{Type: &ast.FuncType{Params: &ast.FieldList{}}, Body: &ast.BlockStmt{List: []ast.Stmt{&ast.ExprStmt{X: &ast.CallExpr{Fun: ast.NewIdent("close"), Args: []ast.Expr{call.Args[0]}}}}}}
						generated[thunk] = true
						list[i] = &ast.ExprStmt{X: &ast.CallExpr{Fun: sel("CloseF"), Args: []ast.Expr{call.Args[0], thunk}}}
						n++
					}
				}
			case *ast.DeferStmt:
				if id, ok := t.Call.Fun.(*ast.Ident); ok && id.Name == "close" && len(t.Call.Args) == 1 && id.Obj == nil {
					thunk := &ast.FuncLit{Type: &ast.FuncType{Params: &ast.FieldList{}}, Body: &ast.BlockStmt{List: []ast.Stmt{&ast.ExprStmt{X: &ast.CallExpr{Fun: ast.NewIdent("close"), Args: []ast.Expr{t.Call.Args[0]}}}}}}
					generated[thunk] = true
					t.Call = &ast.CallExpr{Fun: sel("CloseF"), Args: []ast.Expr{t.Call.Args[0], thunk}}
					n++
				}
			}
		}
		return true
	})
	return n
}
