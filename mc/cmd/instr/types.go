package main

import (
	"encoding/json"
	"fmt"
	"go/ast"
	"go/importer"
	"go/parser"
	"go/token"
	"go/types"
	"io"
	"os"
	"os/exec"
	"path/filepath"
	"strconv"
	"strings"
)

// typeInfo type-checks one package directory of the repository from source,
// importing its dependencies from compiler export data (go list -export).
type pkgExport struct {
	ImportPath string
	Export     string
	Dir        string
}

var exports map[string]string

func loadExports(repo string) error {
	if exports != nil {
		return nil
	}
	exports = map[string]string{}
	scratch, err := os.MkdirTemp("", "instr-mod-")
	if err != nil {
		return err
	}
	defer os.RemoveAll(scratch)
	for _, f := range []string{"go.mod", "go.sum"} {
		b, err := os.ReadFile(filepath.Join(repo, f))
		if err != nil {
			return err
		}
		os.WriteFile(filepath.Join(scratch, f), b, 0o644)
	}
	cmd := exec.Command("go", "list", "-modfile="+filepath.Join(scratch, "go.mod"), "-export", "-deps", "-json=ImportPath,Export,Dir", "./linter/...", "./interpreter/...")
	cmd.Dir = repo
	cmd.Stderr = os.Stderr
	out, err := cmd.Output()
	if err != nil {
		return fmt.Errorf("go list -export: %w", err)
	}
	dec := json.NewDecoder(strings.NewReader(string(out)))
	for {
		var p pkgExport
		if err := dec.Decode(&p); err == io.EOF {
			break
		} else if err != nil {
			return err
		}
		if p.Export != "" {
			exports[p.ImportPath] = p.Export
		}
	}
	return nil
}

type mapSites struct {
	fset  *token.FileSet
	files map[string]*ast.File // by absolute path
	info  *types.Info
}

func typeCheckDir(repo, rel string) (*mapSites, error) {
	if err := loadExports(repo); err != nil {
		return nil, err
	}
	fset := token.NewFileSet()
	dir := filepath.Join(repo, rel)
	ents, err := os.ReadDir(dir)
	if err != nil {
		return nil, err
	}
	ms := &mapSites{fset: fset, files: map[string]*ast.File{}}
	var files []*ast.File
	for _, e := range ents {
		n := e.Name()
		if e.IsDir() || !strings.HasSuffix(n, ".go") || strings.HasSuffix(n, "_test.go") {
			continue
		}
		p := filepath.Join(dir, n)
		f, err := parser.ParseFile(fset, p, nil, parser.ParseComments)
		if err != nil {
			return nil, err
		}
		ms.files[p] = f
		files = append(files, f)
	}
	lookup := func(path string) (io.ReadCloser, error) {
		if e, ok := exports[path]; ok {
			return os.Open(e)
		}
		return nil, fmt.Errorf("no export data for %s", path)
	}
	conf := types.Config{Importer: importer.ForCompiler(fset, "gc", lookup), Error: func(error) {}}
	ms.info = &types.Info{Types: map[ast.Expr]types.TypeAndValue{}}
	if _, err := conf.Check(modPath+"/"+rel, fset, files, ms.info); err != nil {
		// partial information is still useful, but say so
		fmt.Fprintf(os.Stderr, "instr: type check of %s: %v\n", rel, err)
	}
	return ms, nil
}

// rewriteMapRanges rewrites every `for k, v := range m` over a map in file f
// (already parsed in ms.fset) to iterate through zzvmap.Keys. Returns the number
// of sites rewritten and skipped.
func (ms *mapSites) rewriteMapRanges(f *ast.File, rel string) (int, int) {
	rewritten, skipped := 0, 0
	labeled := map[ast.Stmt]bool{}
	ast.Inspect(f, func(n ast.Node) bool {
		if ls, ok := n.(*ast.LabeledStmt); ok {
			labeled[ls.Stmt] = true
		}
		return true
	})
	var fix func(list []ast.Stmt)
	site := 0
	fix = func(list []ast.Stmt) {
		for i, st := range list {
			rs, ok := st.(*ast.RangeStmt)
			if !ok {
				continue
			}
			tv, ok := ms.info.Types[rs.X]
			if !ok || tv.Type == nil {
				continue
			}
			if _, isMap := tv.Type.Underlying().(*types.Map); !isMap {
				continue
			}
			if labeled[rs] || rs.Tok != token.DEFINE && (rs.Key != nil || rs.Value != nil) {
				skipped++
				continue
			}
			site++
			pos := ms.fset.Position(rs.Pos())
			name := fmt.Sprintf("%s:%d", rel, pos.Line)
			mv := ast.NewIdent(fmt.Sprintf("zzm%d", site))
			kv := ast.NewIdent(fmt.Sprintf("zzk%d", site))
			okv := ast.NewIdent(fmt.Sprintf("zzok%d", site))
			var pre []ast.Stmt
			// value binding with presence test (an entry deleted during iteration is not produced)
			valName := ast.NewIdent("_")
			if id, ok := rs.Value.(*ast.Ident); ok && id.Name != "_" {
				valName = id
			}
			pre = append(pre, &ast.AssignStmt{Lhs: []ast.Expr{valName, okv}, Tok: token.DEFINE,
				Rhs: []ast.Expr{&ast.IndexExpr{X: mv, Index: kv}}})
			pre = append(pre, &ast.IfStmt{Cond: &ast.UnaryExpr{Op: token.NOT, X: okv}, Body: &ast.BlockStmt{List: []ast.Stmt{&ast.BranchStmt{Tok: token.CONTINUE}}}})
			if id, ok := rs.Key.(*ast.Ident); ok && id.Name != "_" {
				pre = append(pre, &ast.AssignStmt{Lhs: []ast.Expr{id}, Tok: token.DEFINE, Rhs: []ast.Expr{kv}})
				// keep "declared and not used" away if the body never reads the key
				pre = append(pre, &ast.AssignStmt{Lhs: []ast.Expr{ast.NewIdent("_")}, Tok: token.ASSIGN, Rhs: []ast.Expr{id}})
			}
			if valName.Name != "_" {
				pre = append(pre, &ast.AssignStmt{Lhs: []ast.Expr{ast.NewIdent("_")}, Tok: token.ASSIGN, Rhs: []ast.Expr{valName}})
			}
			body := &ast.BlockStmt{List: append(pre, rs.Body.List...)}
			loop := &ast.RangeStmt{
				Key: ast.NewIdent("_"), Value: kv, Tok: token.DEFINE,
				X: &ast.CallExpr{Fun: &ast.SelectorExpr{X: ast.NewIdent("zzvmap"), Sel: ast.NewIdent("Keys")},
					Args: []ast.Expr{mv, &ast.BasicLit{Kind: token.STRING, Value: strconv.Quote(name)}}},
				Body: body,
			}
			list[i] = &ast.BlockStmt{List: []ast.Stmt{
				&ast.AssignStmt{Lhs: []ast.Expr{mv}, Tok: token.DEFINE, Rhs: []ast.Expr{rs.X}},
				loop,
			}}
			rewritten++
		}
	}
	ast.Inspect(f, func(n ast.Node) bool {
		switch t := n.(type) {
		case *ast.BlockStmt:
			fix(t.List)
		case *ast.CaseClause:
			fix(t.Body)
		case *ast.CommClause:
			fix(t.Body)
		}
		return true
	})
	return rewritten, skipped
}
