package gen

import (
	"strconv"
	"strings"
)

// This printer is written from docs/parser.md (grammar shapes and the
// <comment> placeholders) and the Fastly operator reference — not from
// falco's parser. It emits a token list; each token knows which documented
// comment placeholders lie in the gap in front of it.

// Slot is a documented <comment> placeholder.
type Slot struct {
	Name string // "<NodeKind>/<position>"
	Role string // leading (own line before a statement) | trailing (same line after the previous token) | inline | infix (own line before a closing brace)
}

// Tok is one source token.
type Tok struct {
	Text  string
	Pre   []Slot // placeholders in the gap before this token
	Tight bool   // no whitespace is written before this token by default (e.g. "(" of a call)
	NL    bool   // default layout starts a new line before this token
	Ind   int    // indentation level for NL
	Stmt  int    // index of the innermost statement/declaration this token belongs to (for C09 pairs)
	Kind  string // node kind that emitted the token
}

type emitter struct {
	toks    []Tok
	pending []Slot
	ind     int
	nl      bool
	kind    []string
	stmtSeq int
	stmt    []int
}

func (e *emitter) slot(name, role string) {
	e.pending = append(e.pending, Slot{Name: e.curKind() + "/" + name, Role: role})
}

func (e *emitter) curKind() string {
	if len(e.kind) == 0 {
		return ""
	}
	return e.kind[len(e.kind)-1]
}

func (e *emitter) push(kind string, isStmt bool) {
	e.kind = append(e.kind, kind)
	if isStmt {
		e.stmtSeq++
		e.stmt = append(e.stmt, e.stmtSeq)
	} else if len(e.stmt) > 0 {
		e.stmt = append(e.stmt, e.stmt[len(e.stmt)-1])
	} else {
		e.stmt = append(e.stmt, 0)
	}
}

func (e *emitter) pop() {
	e.kind = e.kind[:len(e.kind)-1]
	e.stmt = e.stmt[:len(e.stmt)-1]
}

func (e *emitter) t(text string) { e.emit(text, false) }

// tt emits a token that is written tight against the previous one.
func (e *emitter) tt(text string) { e.emit(text, true) }

func (e *emitter) emit(text string, tight bool) {
	st := 0
	if len(e.stmt) > 0 {
		st = e.stmt[len(e.stmt)-1]
	}
	e.toks = append(e.toks, Tok{Text: text, Pre: e.pending, Tight: tight, NL: e.nl, Ind: e.ind, Stmt: st, Kind: e.curKind()})
	e.pending = nil
	e.nl = false
}

func (e *emitter) newline() { e.nl = true }

// Tokens prints a tree (a VCL root, a declaration or a statement).
func Tokens(n *Node) []Tok {
	e := &emitter{}
	if n.Kind == "VCL" {
		for _, s := range n.List("Statements") {
			e.newline()
			e.stmtOrDecl(s)
		}
	} else {
		e.stmtOrDecl(n)
	}
	// a final pseudo token carries the placeholders after the last real token
	e.emit("", false)
	return e.toks
}

func (e *emitter) block(b *Node, trailingSlot bool) {
	e.t("{")
	e.ind++
	for _, s := range b.List("Statements") {
		e.newline()
		e.stmtOrDecl(s)
	}
	e.ind--
	e.newline()
	e.slot("infix", "infix")
	e.t("}")
	if trailingSlot {
		e.slot("trailing", "trailing")
	}
}

func (e *emitter) ident(n *Node) { e.t(n.Str("Value")) }

func (e *emitter) stmtOrDecl(n *Node) {
	e.push(n.Kind, true)
	defer e.pop()
	lead := func() { e.slot("leading", "leading") }
	in := func(name string) { e.slot(name, "inline") }
	end := func() { e.tt(";"); e.slot("trailing", "trailing") }
	switch n.Kind {
	case "AclDeclaration":
		lead()
		e.t("acl")
		in("after-acl")
		e.ident(n.Child("Name"))
		in("after-name")
		e.t("{")
		e.ind++
		for _, c := range n.List("CIDRs") {
			e.newline()
			e.push("AclCidr", false)
			e.slot("leading", "leading")
			if inv := c.Child("Inverse"); inv != nil && inv.Bool("Value") {
				e.t("!")
				e.slot("after-not", "inline")
			}
			txt := strconv.Quote(c.Child("IP").Str("Value"))
			if m := c.Child("Mask"); m != nil {
				txt += "/" + strconv.FormatInt(m.Get("Value").(int64), 10)
			}
			e.t(txt)
			e.slot("before-semicolon", "inline")
			e.tt(";")
			e.slot("trailing", "trailing")
			e.pop()
		}
		e.ind--
		e.newline()
		e.slot("infix", "infix")
		e.t("}")
		e.slot("trailing", "trailing")
	case "BackendDeclaration":
		lead()
		e.t("backend")
		in("after-backend")
		e.ident(n.Child("Name"))
		in("after-name")
		e.t("{")
		e.ind++
		for _, p := range n.List("Properties") {
			e.newline()
			e.backendProp(p)
		}
		e.ind--
		e.newline()
		e.slot("infix", "infix")
		e.t("}")
		e.slot("trailing", "trailing")
	case "DirectorDeclaration":
		lead()
		e.t("director")
		in("after-director")
		e.ident(n.Child("Name"))
		in("after-name")
		e.ident(n.Child("DirectorType"))
		in("after-type")
		e.t("{")
		e.ind++
		for _, p := range n.List("Properties") {
			e.newline()
			switch p.Kind {
			case "DirectorProperty":
				e.directorProp(p, true)
			case "DirectorBackendObject":
				e.push("DirectorBackendObject", false)
				e.slot("leading", "leading")
				e.t("{")
				first := true
				for _, v := range p.List("Values") {
					if first {
						e.slot("after-open", "inline")
					}
					first = false
					e.directorProp(v, false)
				}
				e.t("}")
				e.slot("trailing", "trailing")
				e.pop()
			}
		}
		e.ind--
		e.newline()
		e.slot("infix", "infix")
		e.t("}")
		e.slot("trailing", "trailing")
	case "TableDeclaration":
		lead()
		e.t("table")
		in("after-table")
		e.ident(n.Child("Name"))
		in("after-name")
		if vt := n.Child("ValueType"); vt != nil {
			e.ident(vt)
			in("after-type")
		}
		e.t("{")
		e.ind++
		props := n.List("Properties")
		for _, p := range props {
			e.newline()
			e.push("TableProperty", false)
			e.slot("leading", "leading")
			e.expr(p.Child("Key"))
			e.slot("after-key", "inline")
			e.tt(":")
			e.slot("after-colon", "inline")
			e.expr(p.Child("Value"))
			if p.Bool("HasComma") {
				e.slot("before-comma", "inline")
				e.tt(",")
				e.slot("trailing", "trailing")
			}
			e.pop()
		}
		e.ind--
		e.newline()
		e.slot("infix", "infix")
		e.t("}")
	case "SubroutineDeclaration":
		lead()
		e.t("sub")
		in("after-sub")
		e.ident(n.Child("Name"))
		ps := n.List("Parameters")
		if len(ps) > 0 || n.H["parens"] == "1" {
			e.tt("(")
			for i, p := range ps {
				if i > 0 {
					e.tt(",")
				}
				e.ident(p.Child("Type"))
				e.ident(p.Child("Name"))
			}
			e.tt(")")
		}
		if rt := n.Child("ReturnType"); rt != nil {
			e.ident(rt)
		}
		if len(ps) == 0 && n.Child("ReturnType") == nil && n.H["parens"] != "1" {
			in("after-name")
		}
		e.block(n.Child("Block"), true)
	case "PenaltyboxDeclaration", "RatecounterDeclaration":
		lead()
		if n.Kind == "PenaltyboxDeclaration" {
			e.t("penaltybox")
		} else {
			e.t("ratecounter")
		}
		in("after-keyword")
		e.ident(n.Child("Name"))
		in("after-name")
		e.block(n.Child("Block"), true)
	case "ImportStatement":
		lead()
		e.t("import")
		in("after-import")
		e.ident(n.Child("Name"))
		in("before-semicolon")
		end()
	case "IncludeStatement":
		lead()
		e.t("include")
		in("after-include")
		e.expr(n.Child("Module"))
		in("before-semicolon")
		end()
	case "SetStatement", "AddStatement":
		lead()
		if n.Kind == "SetStatement" {
			e.t("set")
		} else {
			e.t("add")
		}
		in("after-keyword")
		e.ident(n.Child("Ident"))
		in("after-ident")
		e.t(n.Child("Operator").Str("Operator"))
		in("after-operator")
		e.expr(n.Child("Value"))
		in("before-semicolon")
		end()
	case "UnsetStatement", "RemoveStatement":
		lead()
		if n.Kind == "UnsetStatement" {
			e.t("unset")
		} else {
			e.t("remove")
		}
		in("after-keyword")
		e.ident(n.Child("Ident"))
		in("before-semicolon")
		end()
	case "CallStatement":
		lead()
		e.t("call")
		in("after-call")
		e.ident(n.Child("Subroutine"))
		args := n.List("Arguments")
		if len(args) > 0 || n.H["parens"] == "1" {
			e.tt("(")
			for i, a := range args {
				if i > 0 {
					e.tt(",")
				}
				e.expr(a)
			}
			e.tt(")")
		}
		if len(args) == 0 && n.H["parens"] != "1" {
			in("before-semicolon")
		}
		end()
	case "DeclareStatement":
		lead()
		e.t("declare")
		in("after-declare")
		e.t("local")
		in("after-local")
		e.ident(n.Child("Name"))
		in("after-name")
		e.ident(n.Child("ValueType"))
		if v := n.Child("Value"); v != nil {
			e.t("=")
			e.expr(v)
		} else {
			in("before-semicolon")
		}
		end()
	case "ErrorStatement":
		lead()
		e.t("error")
		if c := n.Child("Code"); c != nil {
			in("after-error")
			e.expr(c)
			if a := n.Child("Argument"); a != nil {
				in("after-code")
				e.expr(a)
			}
			in("before-semicolon")
		}
		end()
	case "EsiStatement":
		lead()
		e.t("esi")
		in("before-semicolon")
		end()
	case "RestartStatement":
		lead()
		e.t("restart")
		in("before-semicolon")
		end()
	case "BreakStatement":
		lead()
		e.t("break")
		in("before-semicolon")
		end()
	case "FallthroughStatement":
		lead()
		e.t("fallthrough")
		in("before-semicolon")
		end()
	case "LogStatement", "SyntheticStatement", "SyntheticBase64Statement":
		lead()
		switch n.Kind {
		case "LogStatement":
			e.t("log")
		case "SyntheticStatement":
			e.t("synthetic")
		default:
			e.t("synthetic.base64")
		}
		in("after-keyword")
		e.expr(n.Child("Value"))
		in("before-semicolon")
		end()
	case "ReturnStatement":
		lead()
		e.t("return")
		if x := n.Child("ReturnExpression"); x != nil {
			if n.Bool("HasParenthesis") {
				in("after-return")
				e.t("(")
				in("after-open")
				e.expr(x)
				in("before-close")
				e.t(")")
				in("before-semicolon")
			} else {
				in("after-return")
				e.expr(x)
				in("before-semicolon")
			}
		} else {
			in("before-semicolon")
		}
		end()
	case "GotoStatement":
		lead()
		e.t("goto")
		in("after-goto")
		e.ident(n.Child("Destination"))
		in("before-semicolon")
		end()
	case "GotoDestinationStatement":
		lead()
		e.t(n.Child("Name").Str("Value"))
		e.slot("trailing", "trailing")
	case "BlockStatement":
		lead()
		e.block(n, true)
	case "FunctionCallStatement":
		lead()
		e.ident(n.Child("Function"))
		e.tt("(")
		for i, a := range n.List("Arguments") {
			if i > 0 {
				e.tt(",")
			}
			in("before-argument")
			e.expr(a)
			in("after-argument")
		}
		e.tt(")")
		in("before-semicolon")
		end()
	case "IfStatement":
		lead()
		e.ifChain(n)
	case "SwitchStatement":
		lead()
		e.t("switch")
		in("after-switch")
		e.t("(")
		in("after-open")
		e.expr(n.Child("Control").Child("Expression"))
		in("before-close")
		e.t(")")
		in("before-brace")
		e.t("{")
		e.ind++
		for _, c := range n.List("Cases") {
			e.newline()
			e.push("CaseStatement", false)
			e.slot("leading", "leading")
			if t := c.Child("Test"); t != nil {
				e.t("case")
				e.slot("after-case", "inline")
				if t.Str("Operator") == "~" {
					e.t("~")
				}
				e.expr(t.Child("Right"))
				e.slot("before-colon", "inline")
				e.tt(":")
				e.slot("trailing", "trailing")
			} else {
				e.t("default")
				e.slot("before-colon", "inline")
				e.tt(":")
				e.slot("trailing", "trailing")
			}
			e.pop()
			e.ind++
			for _, s := range c.List("Statements") {
				e.newline()
				e.stmtOrDecl(s)
			}
			e.ind--
		}
		e.ind--
		e.newline()
		e.t("}")
	default:
		panic("gen.print: unknown statement kind " + n.Kind)
	}
}

func (e *emitter) ifChain(n *Node) {
	in := func(name string) { e.slot(name, "inline") }
	e.t("if")
	in("after-if")
	e.t("(")
	in("after-open")
	e.expr(n.Child("Condition"))
	in("before-close")
	e.t(")")
	in("before-brace")
	e.block(n.Child("Consequence"), false)
	for _, a := range n.List("Another") {
		e.push("IfStatement", false)
		e.slot("else-leading", "leading")
		kw := a.Str("Keyword")
		if kw == "else if" {
			e.t("else")
			e.t("if")
		} else {
			e.t(kw)
		}
		e.slot("after-if", "inline")
		e.t("(")
		e.slot("after-open", "inline")
		e.expr(a.Child("Condition"))
		e.slot("before-close", "inline")
		e.t(")")
		e.slot("before-brace", "inline")
		e.block(a.Child("Consequence"), false)
		e.pop()
	}
	if alt := n.Child("Alternative"); alt != nil {
		e.push("ElseStatement", false)
		e.slot("leading", "leading")
		e.t("else")
		e.slot("after-else", "inline")
		e.block(alt.Child("Consequence"), false)
		e.pop()
	}
}

func (e *emitter) backendProp(p *Node) {
	e.push("BackendProperty", false)
	defer e.pop()
	e.slot("leading", "leading")
	e.t("." + p.Child("Key").Str("Value"))
	e.slot("after-key", "inline")
	e.t("=")
	e.slot("after-equal", "inline")
	v := p.Child("Value")
	if v.Kind == "BackendProbeObject" {
		e.t("{")
		e.ind++
		for _, q := range v.List("Values") {
			e.newline()
			e.backendProp(q)
		}
		e.ind--
		e.newline()
		e.slot("probe-infix", "infix")
		e.t("}")
		e.slot("trailing", "trailing")
		return
	}
	e.expr(v)
	e.slot("before-semicolon", "inline")
	e.tt(";")
	e.slot("trailing", "trailing")
}

func (e *emitter) directorProp(p *Node, top bool) {
	e.push("DirectorProperty", false)
	defer e.pop()
	if top {
		e.slot("leading", "leading")
	}
	e.t("." + p.Child("Key").Str("Value"))
	e.slot("after-key", "inline")
	e.t("=")
	e.slot("after-equal", "inline")
	e.expr(p.Child("Value"))
	e.slot("before-semicolon", "inline")
	e.tt(";")
	e.slot("trailing", "trailing")
}

// EncodeString writes a double-quoted literal for value v without using any
// escape (the generator only asks for values that need none) unless a source
// spelling hint is present.
func stringSrc(n *Node) string {
	if s, ok := n.H["src"]; ok {
		return s
	}
	v := n.Str("Value")
	if n.Bool("LongString") {
		d := n.Str("Delimiter")
		return "{" + d + "\"" + v + "\"" + d + "}"
	}
	return "\"" + v + "\""
}

func (e *emitter) expr(n *Node) {
	e.push(n.Kind, false)
	defer e.pop()
	switch n.Kind {
	case "Ident":
		e.t(n.Str("Value"))
	case "String":
		e.t(stringSrc(n))
	case "Integer":
		if s, ok := n.H["src"]; ok {
			e.t(s)
		} else {
			e.t(strconv.FormatInt(n.Get("Value").(int64), 10))
		}
	case "Float":
		if s, ok := n.H["src"]; ok {
			e.t(s)
		} else {
			s := strconv.FormatFloat(n.Get("Value").(float64), 'f', -1, 64)
			if !strings.Contains(s, ".") {
				s += ".0"
			}
			e.t(s)
		}
	case "RTime":
		e.t(n.Str("Value"))
	case "Boolean":
		if n.Bool("Value") {
			e.t("true")
		} else {
			e.t("false")
		}
	case "IP":
		e.t(strconv.Quote(n.Str("Value")))
	case "PrefixExpression":
		e.t(n.Str("Operator"))
		r := n.Child("Right")
		// the operand is written tight against the operator
		mark := len(e.toks)
		e.expr(r)
		if mark < len(e.toks) {
			e.toks[mark].Tight = true
		}
	case "PostfixExpression":
		e.expr(n.Child("Left"))
		e.tt(n.Str("Operator"))
	case "GroupedExpression":
		e.t("(")
		e.expr(n.Child("Right"))
		e.t(")")
	case "InfixExpression":
		e.expr(n.Child("Left"))
		op := n.Str("Operator")
		if op == "+" {
			if n.Bool("Explicit") {
				e.t("+")
			}
		} else {
			e.t(op)
		}
		e.expr(n.Child("Right"))
	case "IfExpression":
		e.t("if")
		e.tt("(")
		e.expr(n.Child("Condition"))
		e.tt(",")
		e.expr(n.Child("Consequence"))
		e.tt(",")
		e.expr(n.Child("Alternative"))
		e.tt(")")
	case "FunctionCallExpression":
		e.ident(n.Child("Function"))
		e.tt("(")
		for i, a := range n.List("Arguments") {
			if i > 0 {
				e.tt(",")
			}
			// (not in docs/parser.md's placeholder list: only the call statement is; C15 leaves these out)
			e.slot("before-argument", "inline")
			e.expr(a)
			e.slot("after-argument", "inline")
		}
		e.tt(")")
	default:
		panic("gen.print: unknown expression kind " + n.Kind)
	}
}

// ---------------------------------------------------------------------------
// Layouts

// Deco is a decoration inserted in the gap before token Index.
type Deco struct {
	Index int    // token index (gap before it)
	Text  string // e.g. "/* c */", "# c", "// c", "" (blank line)
	Role  string // leading | trailing | inline | infix
}

// Layout controls whitespace.
type Layout struct {
	Sep     string // separator between tokens on a line (" " by default)
	Newline bool   // honour default line structure (else everything on one line)
	AllNL   bool   // put every token on its own line
}

// Render joins tokens with the layout and decorations.
func Render(toks []Tok, lay Layout, decos []Deco) string {
	if lay.Sep == "" {
		lay.Sep = " "
	}
	byIdx := map[int][]Deco{}
	for _, d := range decos {
		byIdx[d.Index] = append(byIdx[d.Index], d)
	}
	var b strings.Builder
	lineComment := false // the last thing written is a line comment (needs a newline before more text)
	atStart := true
	for i, t := range toks {
		ds := byIdx[i]
		newline := (lay.Newline && t.NL) || lay.AllNL
		// trailing-role decorations stay on the previous token's line
		var rest []Deco
		for _, d := range ds {
			if d.Role == "trailing" {
				if d.Text == "" {
					continue
				}
				b.WriteString(" " + d.Text)
				lineComment = isLine(d.Text)
				atStart = false
			} else {
				rest = append(rest, d)
			}
		}
		for _, d := range rest {
			switch d.Role {
			case "raw":
				// verbatim whitespace / text in the gap
				b.WriteString(d.Text)
				lineComment = false
				atStart = strings.HasSuffix(d.Text, "\n")
				if !atStart && d.Text != "" {
					// the token follows immediately after the raw text
					atStart = true
				}
			case "leading", "infix":
				if !atStart {
					b.WriteString("\n")
				}
				if d.Text == "" {
					b.WriteString("\n")
					lineComment = false
					atStart = true
					continue
				}
				b.WriteString(strings.Repeat("  ", t.Ind) + d.Text)
				lineComment = isLine(d.Text)
				atStart = false
				newline = true
			default: // inline
				if lineComment {
					b.WriteString("\n")
					lineComment = false
				} else if !atStart {
					b.WriteString(" ")
				}
				if d.Text == "" {
					b.WriteString("\n")
					atStart = true
					continue
				}
				b.WriteString(d.Text)
				lineComment = isLine(d.Text)
				atStart = false
			}
		}
		if t.Text == "" {
			continue
		}
		switch {
		case atStart:
			if newline {
				b.WriteString(strings.Repeat("  ", t.Ind))
			}
		case lineComment || newline:
			b.WriteString("\n" + strings.Repeat("  ", t.Ind))
		case t.Tight && !lay.AllNL && len(rest) == 0:
		default:
			b.WriteString(lay.Sep)
		}
		lineComment = false
		b.WriteString(t.Text)
		atStart = false
	}
	b.WriteString("\n")
	return b.String()
}

func isLine(c string) bool { return strings.HasPrefix(c, "#") || strings.HasPrefix(c, "//") }

// Source renders with the default readable layout.
func Source(n *Node) string {
	return Render(Tokens(n), Layout{Newline: true}, nil)
}
