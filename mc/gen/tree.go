// Package gen holds the grammar-directed VCL generator, the independent
// printer and the structural comparer shared by the parser / formatter /
// linter / codec checks.
package gen

import (
	"fmt"
	"math"
	"reflect"
	"sort"
	"strconv"
	"strings"

	"github.com/ysugimoto/falco/v2/ast"
)

// Node is a generic syntax tree node: the thing the parser is supposed to
// build (generator side) or the thing it did build (Dump side).
type Node struct {
	Kind string
	// F holds fields in declaration order. A value is one of: string, bool,
	// int64, float64, *Node (may be nil), []*Node.
	F []Field
	// Hints for the printer only (never compared): source spelling etc.
	H map[string]string
}

// Field is a named child or attribute.
type Field struct {
	Name string
	Val  any
}

// N builds a node; args alternate name, value.
func N(kind string, args ...any) *Node {
	n := &Node{Kind: kind}
	for i := 0; i+1 < len(args); i += 2 {
		v := args[i+1]
		if v == nil {
			v = (*Node)(nil)
		}
		n.F = append(n.F, Field{Name: args[i].(string), Val: v})
	}
	return n
}

// Hint sets a printer hint and returns n.
func (n *Node) Hint(k, v string) *Node {
	if n.H == nil {
		n.H = map[string]string{}
	}
	n.H[k] = v
	return n
}

// Get returns the field value by name.
func (n *Node) Get(name string) any {
	for _, f := range n.F {
		if f.Name == name {
			return f.Val
		}
	}
	return nil
}

// Set replaces or adds a field.
func (n *Node) Set(name string, v any) *Node {
	for i := range n.F {
		if n.F[i].Name == name {
			n.F[i].Val = v
			return n
		}
	}
	n.F = append(n.F, Field{name, v})
	return n
}

// Child returns a node-valued field (nil if absent or nil).
func (n *Node) Child(name string) *Node {
	if v, ok := n.Get(name).(*Node); ok {
		return v
	}
	return nil
}

// List returns a list-valued field.
func (n *Node) List(name string) []*Node {
	if v, ok := n.Get(name).([]*Node); ok {
		return v
	}
	return nil
}

// Str returns a string-valued field.
func (n *Node) Str(name string) string {
	if v, ok := n.Get(name).(string); ok {
		return v
	}
	return ""
}

// Bool returns a bool-valued field.
func (n *Node) Bool(name string) bool {
	if v, ok := n.Get(name).(bool); ok {
		return v
	}
	return false
}

// Clone deep-copies a tree.
func (n *Node) Clone() *Node {
	if n == nil {
		return nil
	}
	c := &Node{Kind: n.Kind}
	if n.H != nil {
		c.H = map[string]string{}
		for k, v := range n.H {
			c.H[k] = v
		}
	}
	for _, f := range n.F {
		switch v := f.Val.(type) {
		case *Node:
			c.F = append(c.F, Field{f.Name, v.Clone()})
		case []*Node:
			l := make([]*Node, len(v))
			for i := range v {
				l[i] = v[i].Clone()
			}
			c.F = append(c.F, Field{f.Name, l})
		default:
			c.F = append(c.F, f)
		}
	}
	return c
}

// Walk visits every node (pre-order).
func (n *Node) Walk(f func(*Node)) {
	if n == nil {
		return
	}
	f(n)
	for _, fl := range n.F {
		switch v := fl.Val.(type) {
		case *Node:
			v.Walk(f)
		case []*Node:
			for _, c := range v {
				c.Walk(f)
			}
		}
	}
}

// Map rebuilds the tree bottom-up through f.
func (n *Node) Map(f func(*Node) *Node) *Node {
	if n == nil {
		return nil
	}
	c := &Node{Kind: n.Kind, H: n.H}
	for _, fl := range n.F {
		switch v := fl.Val.(type) {
		case *Node:
			var m *Node
			if v != nil {
				m = v.Map(f)
			}
			c.F = append(c.F, Field{fl.Name, m})
		case []*Node:
			l := make([]*Node, 0, len(v))
			for _, x := range v {
				l = append(l, x.Map(f))
			}
			c.F = append(c.F, Field{fl.Name, l})
		default:
			c.F = append(c.F, fl)
		}
	}
	return f(c)
}

// String renders the canonical S-expression.
func (n *Node) String() string {
	var b strings.Builder
	n.write(&b)
	return b.String()
}

func (n *Node) write(b *strings.Builder) {
	if n == nil {
		b.WriteString("nil")
		return
	}
	b.WriteString("(" + n.Kind)
	for _, f := range n.F {
		b.WriteString(" " + f.Name + ":")
		writeVal(b, f.Val)
	}
	b.WriteString(")")
}

func writeVal(b *strings.Builder, v any) {
	switch t := v.(type) {
	case nil:
		b.WriteString("nil")
	case *Node:
		t.write(b)
	case []*Node:
		b.WriteString("[")
		for i, c := range t {
			if i > 0 {
				b.WriteString(" ")
			}
			c.write(b)
		}
		b.WriteString("]")
	case string:
		b.WriteString(strconv.Quote(t))
	case float64:
		if math.IsNaN(t) {
			b.WriteString("NaN")
		} else {
			fs := strconv.FormatFloat(t, 'g', -1, 64)
			if !strings.ContainsAny(fs, ".eIN") {
				fs += ".0"
			}
			b.WriteString(fs)
		}
	default:
		fmt.Fprint(b, t)
	}
}

// ---------------------------------------------------------------------------
// Dump: falco ast -> Node by reflection, ignoring Meta and comments.

var (
	metaType     = reflect.TypeOf((*ast.Meta)(nil))
	commentsType = reflect.TypeOf(ast.Comments{})
)

// Ignore decides which (kind, field) pairs Dump leaves out.
type Ignore func(kind, field string) bool

// PresentationFlags are the fields C19 excepts ("purely presentational flags").
func PresentationFlags(kind, field string) bool {
	switch field {
	case "LongString", "Delimiter", "HasComma", "Explicit", "HasParenthesis", "Nest":
		return true
	}
	return false
}

// NoIgnore keeps every field.
func NoIgnore(string, string) bool { return false }

// Dump converts a falco AST node.
func Dump(v any, ig Ignore) *Node {
	if ig == nil {
		ig = NoIgnore
	}
	return dumpValue(reflect.ValueOf(v), ig)
}

// DumpList converts a statement list into a synthetic VCL root node.
func DumpList(stmts []ast.Statement, ig Ignore) *Node {
	l := make([]*Node, 0, len(stmts))
	for _, s := range stmts {
		l = append(l, Dump(s, ig))
	}
	return N("VCL", "Statements", l)
}

func dumpValue(rv reflect.Value, ig Ignore) *Node {
	for rv.Kind() == reflect.Interface {
		if rv.IsNil() {
			return nil
		}
		rv = rv.Elem()
	}
	if rv.Kind() == reflect.Ptr {
		if rv.IsNil() {
			return nil
		}
		rv = rv.Elem()
	}
	if rv.Kind() != reflect.Struct {
		return nil
	}
	t := rv.Type()
	n := &Node{Kind: t.Name()}
	for i := 0; i < t.NumField(); i++ {
		sf := t.Field(i)
		if sf.Type == metaType || sf.Type == commentsType || !sf.IsExported() {
			continue
		}
		if ig(n.Kind, sf.Name) {
			continue
		}
		fv := rv.Field(i)
		switch fv.Kind() {
		case reflect.String:
			n.F = append(n.F, Field{sf.Name, fv.String()})
		case reflect.Bool:
			n.F = append(n.F, Field{sf.Name, fv.Bool()})
		case reflect.Int, reflect.Int64, reflect.Int32:
			n.F = append(n.F, Field{sf.Name, fv.Int()})
		case reflect.Float64:
			n.F = append(n.F, Field{sf.Name, fv.Float()})
		case reflect.Ptr, reflect.Interface:
			var c *Node
			c = dumpValue(fv, ig)
			n.F = append(n.F, Field{sf.Name, c})
		case reflect.Slice:
			l := make([]*Node, 0, fv.Len())
			for j := 0; j < fv.Len(); j++ {
				l = append(l, dumpValue(fv.Index(j), ig))
			}
			n.F = append(n.F, Field{sf.Name, l})
		}
	}
	return n
}

// ---------------------------------------------------------------------------
// Diff: first structural difference with its path.

// Difference describes where two trees differ.
type Difference struct {
	Path  string // e.g. SubroutineDeclaration.Block.Statements[].SetStatement.Value
	Field string
	Want  string
	Got   string
}

func (d *Difference) String() string {
	return fmt.Sprintf("%s: want %s, got %s", d.Path, d.Want, d.Got)
}

// ClassPath strips indices so that the same kind of difference is one class.
func (d *Difference) ClassPath() string { return d.Path }

// Diff returns nil when a and b are structurally equal.
func Diff(want, got *Node) *Difference {
	return diff(want, got, "")
}

func short(s string) string {
	if len(s) > 160 {
		return s[:160] + "…"
	}
	return s
}

func diff(a, b *Node, path string) *Difference {
	if a == nil || b == nil {
		if a == nil && b == nil {
			return nil
		}
		return &Difference{Path: path, Want: short(a.String()), Got: short(b.String())}
	}
	if a.Kind != b.Kind {
		return &Difference{Path: path + "<kind>", Want: a.Kind + " " + short(a.String()), Got: b.Kind + " " + short(b.String())}
	}
	p := path + a.Kind
	// compare by field name (order-insensitive, absent == zero is NOT assumed)
	names := map[string]bool{}
	for _, f := range a.F {
		names[f.Name] = true
	}
	for _, f := range b.F {
		names[f.Name] = true
	}
	ks := make([]string, 0, len(names))
	for k := range names {
		ks = append(ks, k)
	}
	sort.Strings(ks)
	// keep declaration order of a first for readable first-difference
	ordered := []string{}
	seen := map[string]bool{}
	for _, f := range a.F {
		ordered = append(ordered, f.Name)
		seen[f.Name] = true
	}
	for _, k := range ks {
		if !seen[k] {
			ordered = append(ordered, k)
		}
	}
	for _, k := range ordered {
		av, aok := fieldOf(a, k)
		bv, bok := fieldOf(b, k)
		if !aok || !bok {
			return &Difference{Path: p + "." + k, Want: presence(aok, av), Got: presence(bok, bv)}
		}
		switch x := av.(type) {
		case *Node:
			y, ok := bv.(*Node)
			if !ok {
				return &Difference{Path: p + "." + k, Want: short(valString(av)), Got: short(valString(bv))}
			}
			if d := diff(x, y, p+"."+k+"."); d != nil {
				return d
			}
		case []*Node:
			y, ok := bv.([]*Node)
			if !ok {
				return &Difference{Path: p + "." + k, Want: short(valString(av)), Got: short(valString(bv))}
			}
			if len(x) != len(y) {
				return &Difference{Path: p + "." + k + "<len>", Want: fmt.Sprintf("%d items %s", len(x), short(valString(av))), Got: fmt.Sprintf("%d items %s", len(y), short(valString(bv)))}
			}
			for i := range x {
				if d := diff(x[i], y[i], p+"."+k+"[]."); d != nil {
					return d
				}
			}
		default:
			if !scalarEq(av, bv) {
				return &Difference{Path: p + "." + k, Want: short(valString(av)), Got: short(valString(bv))}
			}
		}
	}
	return nil
}

func scalarEq(a, b any) bool {
	if fa, ok := a.(float64); ok {
		if fb, ok := b.(float64); ok {
			return fa == fb || math.IsNaN(fa) && math.IsNaN(fb)
		}
	}
	return a == b
}

func presence(ok bool, v any) string {
	if !ok {
		return "<field absent>"
	}
	return short(valString(v))
}

func valString(v any) string {
	var b strings.Builder
	writeVal(&b, v)
	return b.String()
}

func fieldOf(n *Node, k string) (any, bool) {
	for _, f := range n.F {
		if f.Name == k {
			return f.Val, true
		}
	}
	return nil, false
}

// ---------------------------------------------------------------------------
// ParseSexpr reads back the canonical form written by Node.String.

type sx struct {
	s string
	i int
}

// ParseSexpr parses the output of (*Node).String.
func ParseSexpr(s string) (n *Node, err error) {
	defer func() {
		if r := recover(); r != nil {
			err = fmt.Errorf("sexpr: %v", r)
		}
	}()
	p := &sx{s: s}
	v := p.val()
	if nn, ok := v.(*Node); ok {
		return nn, nil
	}
	return nil, fmt.Errorf("sexpr: not a node")
}

func (p *sx) ws() {
	for p.i < len(p.s) && p.s[p.i] == ' ' {
		p.i++
	}
}

func (p *sx) val() any {
	p.ws()
	switch {
	case strings.HasPrefix(p.s[p.i:], "nil"):
		p.i += 3
		return (*Node)(nil)
	case p.s[p.i] == '(':
		p.i++
		j := p.i
		for p.s[p.i] != ' ' && p.s[p.i] != ')' {
			p.i++
		}
		n := &Node{Kind: p.s[j:p.i]}
		for {
			p.ws()
			if p.s[p.i] == ')' {
				p.i++
				return n
			}
			j = p.i
			for p.s[p.i] != ':' {
				p.i++
			}
			name := p.s[j:p.i]
			p.i++
			n.F = append(n.F, Field{name, p.val()})
		}
	case p.s[p.i] == '[':
		p.i++
		l := []*Node{}
		for {
			p.ws()
			if p.s[p.i] == ']' {
				p.i++
				return l
			}
			l = append(l, p.val().(*Node))
		}
	case p.s[p.i] == '"':
		// find the end of the Go-quoted string
		j := p.i + 1
		for p.s[j] != '"' {
			if p.s[j] == '\\' {
				j++
			}
			j++
		}
		q := p.s[p.i : j+1]
		p.i = j + 1
		u, err := strconv.Unquote(q)
		if err != nil {
			panic(err)
		}
		return u
	default:
		j := p.i
		for p.i < len(p.s) && p.s[p.i] != ' ' && p.s[p.i] != ')' && p.s[p.i] != ']' {
			p.i++
		}
		w := p.s[j:p.i]
		switch w {
		case "true":
			return true
		case "false":
			return false
		case "NaN":
			return math.NaN()
		}
		if iv, err := strconv.ParseInt(w, 10, 64); err == nil {
			return iv
		}
		if fv, err := strconv.ParseFloat(w, 64); err == nil {
			return fv
		}
		panic("bad scalar " + w)
	}
}


// FromAST converts a parsed program into a printable tree (no source-spelling
// hints: only use it for programs whose literals need none).
func FromAST(stmts []ast.Statement) *Node { return DumpList(stmts, nil) }
