package gen

import (
	"math"
	"strconv"

	"verif/mc/engine"
)

// ---------------------------------------------------------------------------
// constructors for intended trees (shapes follow falco's ast package names so
// that Dump output is comparable; the *content* comes from the grammar).

func Ident(v string) *Node { return N("Ident", "Value", v) }
func Str(v string) *Node {
	return N("String", "Value", v, "LongString", false, "Delimiter", "")
}
func LongStr(v, delim string) *Node {
	return N("String", "Value", v, "LongString", true, "Delimiter", delim)
}

// StrSrc is a double-quoted literal written as src whose decoded value is v.
func StrSrc(src, v string) *Node { return Str(v).Hint("src", "\""+src+"\"") }
func Int(v int64) *Node           { return N("Integer", "Value", v) }
func IntSrc(src string, v int64) *Node {
	return Int(v).Hint("src", src)
}
func Float(v float64) *Node { return N("Float", "Value", v) }
func FloatSrc(src string, v float64) *Node {
	return Float(v).Hint("src", src)
}
func RTime(v string) *Node { return N("RTime", "Value", v) }
func Bool(v bool) *Node    { return N("Boolean", "Value", v) }
func Prefix(op string, r *Node) *Node {
	return N("PrefixExpression", "Operator", op, "Right", r)
}
func Infix(l *Node, op string, r *Node) *Node {
	return N("InfixExpression", "Left", l, "Operator", op, "Explicit", false, "Right", r)
}
func Concat(l *Node, explicit bool, r *Node) *Node {
	return N("InfixExpression", "Left", l, "Operator", "+", "Explicit", explicit, "Right", r)
}
func Group(x *Node) *Node { return N("GroupedExpression", "Right", x) }
func IfExpr(c, a, b *Node) *Node {
	return N("IfExpression", "Condition", c, "Consequence", a, "Alternative", b)
}
func Call(fn string, args ...*Node) *Node {
	if args == nil {
		args = []*Node{}
	}
	return N("FunctionCallExpression", "Function", Ident(fn), "Arguments", args)
}
func Op(o string) *Node { return N("Operator", "Operator", o) }
func Block(stmts ...*Node) *Node {
	if stmts == nil {
		stmts = []*Node{}
	}
	return N("BlockStatement", "Statements", stmts)
}
func Set(target, op string, v *Node) *Node {
	return N("SetStatement", "Ident", Ident(target), "Operator", Op(op), "Value", v)
}
func Sub(name string, stmts ...*Node) *Node {
	return N("SubroutineDeclaration", "Name", Ident(name), "Parameters", []*Node{}, "Block", Block(stmts...), "ReturnType", nil)
}
func VCL(decls ...*Node) *Node { return N("VCL", "Statements", decls) }
func If(cond *Node, body ...*Node) *Node {
	return N("IfStatement", "Keyword", "if", "Condition", cond, "Consequence", Block(body...), "Another", []*Node{}, "Alternative", nil)
}
func ElseIf(kw string, cond *Node, body ...*Node) *Node {
	return N("IfStatement", "Keyword", kw, "Condition", cond, "Consequence", Block(body...), "Another", []*Node{}, "Alternative", nil)
}
func Else(body ...*Node) *Node { return N("ElseStatement", "Consequence", Block(body...)) }

// ---------------------------------------------------------------------------
// precedence reference (from the property text / Fastly operator reference)

// Level of a binary operator: higher binds tighter.
func Level(op string) int {
	switch op {
	case "||":
		return 1
	case "&&":
		return 2
	case "~", "!~":
		return 3
	case "==", "!=":
		return 4
	case "<", ">", "<=", ">=":
		return 5
	case "+":
		return 6
	}
	return 0
}

const prefixLevel = 7

func exprLevel(n *Node) int {
	switch n.Kind {
	case "InfixExpression":
		return Level(n.Str("Operator"))
	case "PrefixExpression":
		return prefixLevel
	}
	return 9 // atoms, calls, grouped, if()
}

// startsWithNonJuxtaposable: a right operand of implicit concatenation must
// begin with an identifier, a string or `if` to be written by juxtaposition.
func juxtaposable(n *Node) bool {
	for {
		switch n.Kind {
		case "Ident", "String", "IfExpression", "FunctionCallExpression":
			return true
		case "InfixExpression":
			n = n.Child("Left")
			continue
		}
		return false
	}
}

// Parenthesize inserts GroupedExpression nodes so that the printed text has
// the tree's grouping: minimal (only where the precedence table demands) or
// full (around every compound operand).
func Parenthesize(n *Node, full bool) *Node {
	switch n.Kind {
	case "InfixExpression":
		op := n.Str("Operator")
		lv := Level(op)
		l := Parenthesize(n.Child("Left"), full)
		r := Parenthesize(n.Child("Right"), full)
		needL, needR := false, false
		ll, rl := exprLevel(n.Child("Left")), exprLevel(n.Child("Right"))
		if ll < lv {
			needL = true
		} else if ll == lv {
			// same level on the left is only left alone for a chain of the same associative family
			lop := n.Child("Left").Str("Operator")
			if !(op == "+" || (op == lop && (op == "&&" || op == "||"))) {
				needL = true
			}
		}
		if rl <= lv {
			needR = true
		}
		if full {
			needL = needL || ll < 9
			needR = needR || rl < 9
		}
		if needL {
			l = Group(l)
		}
		if needR {
			r = Group(r)
		}
		c := n.Clone()
		c.Set("Left", l)
		c.Set("Right", r)
		if op == "+" && !c.Bool("Explicit") && !juxtaposable(r) {
			c.Set("Explicit", true)
		}
		return c
	case "PrefixExpression":
		r := Parenthesize(n.Child("Right"), full)
		if exprLevel(n.Child("Right")) < 9 {
			r = Group(r)
		}
		c := n.Clone()
		c.Set("Right", r)
		return c
	case "IfExpression":
		c := n.Clone()
		c.Set("Condition", Parenthesize(n.Child("Condition"), full))
		c.Set("Consequence", Parenthesize(n.Child("Consequence"), full))
		c.Set("Alternative", Parenthesize(n.Child("Alternative"), full))
		return c
	case "FunctionCallExpression":
		c := n.Clone()
		args := []*Node{}
		for _, a := range n.List("Arguments") {
			args = append(args, Parenthesize(a, full))
		}
		c.Set("Arguments", args)
		return c
	case "GroupedExpression":
		c := n.Clone()
		c.Set("Right", Parenthesize(n.Child("Right"), full))
		return c
	}
	return n.Clone()
}

// ---------------------------------------------------------------------------
// expression alphabets

// BinOps in precedence order (loosest first); "+" explicit and " " implicit concat.
var BinOps = []string{"||", "&&", "~", "!~", "==", "!=", "<", ">", "<=", ">=", "+", "juxt"}

// PrefixOps of the language.
var PrefixOps = []string{"!", "-"}

// Atoms returns the atom alphabet (fresh nodes).
func Atoms() []*Node {
	return []*Node{
		Ident("req.http.A"),
		Ident("var.x"),
		Str("s"),
		LongStr("l", ""),
		Int(7),
		Float(1.5),
		RTime("5s"),
		Bool(true),
		Call("fn", Ident("a")),
		IfExpr(Ident("c"), Str("y"), Str("n")),
	}
}

func mkBin(op string, l, r *Node) *Node {
	switch op {
	case "+":
		return Concat(l, true, r)
	case "juxt":
		return Concat(l, false, r)
	}
	return Infix(l, op, r)
}

// ---------------------------------------------------------------------------
// statement / declaration derivations through the choice explorer

type G struct{ C *engine.C }

// pick returns alternatives[i] where alternative 0 is the default.
func pick[T any](c *engine.C, label string, alts ...T) T {
	return alts[c.Choose(len(alts), label)]
}

func pickFree[T any](c *engine.C, label string, alts ...T) T {
	return alts[c.Free(len(alts), label)]
}

// Value is a small expression choice: default is a plain string.
func (g G) Value(label string) *Node {
	c := g.C
	switch c.Choose(24, label) {
	case 0:
		return Str("v")
	case 1:
		return Ident("req.http.B")
	case 2:
		return Int(42)
	case 3:
		return Float(2.5)
	case 4:
		return RTime("10m")
	case 5:
		return Bool(false)
	case 6:
		return Concat(Str("a"), false, Ident("req.http.B"))
	case 7:
		return Concat(Str("a"), true, Str("b"))
	case 8:
		return Concat(Concat(Str("a"), false, Ident("var.b")), true, Str("c"))
	case 9:
		return Call("std.tolower", Ident("req.http.B"))
	case 10:
		return IfExpr(Infix(Ident("req.http.B"), "==", Str("x")), Str("y"), Str("n"))
	case 11:
		return LongStr("long \"quoted\" text", "")
	case 12:
		return LongStr("delimited \"} text", "EOS")
	case 13:
		return StrSrc("%41%u0042%u{43}", "ABC")
	case 14:
		return Prefix("-", Int(1))
	case 15:
		return IntSrc("0x1F", 31)
	case 16:
		return FloatSrc("1e3", 1000)
	case 17:
		return Call("regsub", Ident("req.url"), Str("^/a"), Str("/b"))
	case 18:
		return Str("")
	case 19:
		return Concat(Ident("req.http.A"), false, Call("std.itoa", Int(1)))
	case 20:
		return Infix(Ident("req.http.A"), "~", Str("^x"))
	case 21:
		// a long string with runs of empty lines (2, 3 and 4 line feeds in a row)
		return LongStr("line1\n\nline2\n\n\nline3\n\n\n\nline4", "")
	case 22:
		if label == "sub.ret" {
			// a return value that starts with "(" is the documented `return (state)` form, not a grouped expression
			return Infix(Ident("req.http.A"), "&&", Prefix("!", Group(Ident("req.http.B"))))
		}
		return Group(Infix(Group(Ident("req.http.A")), "&&", Prefix("!", Group(Ident("req.http.B")))))
	default:
		return Concat(Ident("req.http.A"), true, Ident("req.http.B"))
	}
}

// Cond is a condition choice: default is a plain identifier.
func (g G) Cond(label string) *Node {
	c := g.C
	switch c.Choose(12, label) {
	case 0:
		return Ident("req.http.A")
	case 1:
		return Infix(Ident("req.http.A"), "==", Str("x"))
	case 2:
		return Infix(Ident("req.http.A"), "~", Str("^/x"))
	case 3:
		return Prefix("!", Ident("req.http.A"))
	case 4:
		return Infix(Infix(Ident("a"), "==", Str("x")), "&&", Infix(Ident("b"), "!=", Str("y")))
	case 5:
		return Infix(Ident("a"), "||", Group(Infix(Ident("b"), "&&", Prefix("!", Ident("c")))))
	case 6:
		return Infix(Ident("var.i"), ">=", Int(10))
	case 7:
		return Infix(Ident("req.http.A"), "!~", Str("x"))
	case 8:
		return Call("std.prefixof", Ident("req.url"), Str("/"))
	case 9:
		return Bool(true)
	case 10:
		return Infix(Infix(Infix(Ident("a"), "&&", Ident("b")), "&&", Ident("c")), "&&", Ident("d"))
	default:
		return Infix(Ident("client.ip"), "~", Ident("internal"))
	}
}

var setOps = []string{"=", "+=", "-=", "*=", "/=", "%=", "|=", "&=", "^=", "<<=", ">>=", "rol=", "ror=", "&&=", "||="}

// StatementKinds lists the statement productions.
var StatementKinds = []string{"set", "unset", "remove", "add", "call", "declare", "error", "esi", "log", "restart", "return",
	"synthetic", "synthetic.base64", "if", "switch", "goto", "block", "fncall", "include", "import"}

// DeclKinds lists the declaration productions.
var DeclKinds = []string{"acl", "backend", "director", "table", "sub", "penaltybox", "ratecounter", "import", "include"}

// Statement derives one statement of the given kind (returns 1..2 nodes: goto comes with its label).
func (g G) Statement(kind string, depth int) []*Node {
	c := g.C
	one := func(n *Node) []*Node { return []*Node{n} }
	switch kind {
	case "set":
		tgt := pick(c, "set.target", "req.http.A", "var.x", "req.http.A:b", "beresp.ttl", "req.http.X-Long-Header-Name")
		op := setOps[c.Choose(len(setOps), "set.op")]
		return one(Set(tgt, op, g.Value("set.value")))
	case "unset":
		return one(N("UnsetStatement", "Ident", Ident(pick(c, "unset.target", "req.http.A", "req.http.A:b", "req.http.X-*"))))
	case "remove":
		return one(N("RemoveStatement", "Ident", Ident(pick(c, "remove.target", "req.http.A", "req.http.A:b"))))
	case "add":
		return one(N("AddStatement", "Ident", Ident(pick(c, "add.target", "resp.http.Set-Cookie", "req.http.A")), "Operator", Op("="), "Value", g.Value("add.value")))
	case "call":
		n := N("CallStatement", "Subroutine", Ident("other"), "Arguments", []*Node{})
		switch c.Choose(4, "call.args") {
		case 1:
			n.Hint("parens", "1")
		case 2:
			n.Set("Arguments", []*Node{g.Value("call.arg0")})
		case 3:
			n.Set("Arguments", []*Node{Str("a"), Int(1), Ident("req.http.B")})
		}
		return one(n)
	case "declare":
		ty := pick(c, "declare.type", "STRING", "INTEGER", "FLOAT", "BOOL", "RTIME", "TIME", "IP", "BACKEND", "ACL")
		n := N("DeclareStatement", "Name", Ident("var.x"), "ValueType", Ident(ty), "Value", nil)
		if c.Bool("declare.init") {
			n.Set("Value", g.Value("declare.value"))
		}
		return one(n)
	case "error":
		n := N("ErrorStatement", "Code", Int(600), "Argument", nil)
		switch c.Choose(5, "error.form") {
		case 1:
			n.Set("Code", nil)
		case 2:
			n.Set("Argument", Str("msg"))
		case 3:
			n.Set("Argument", g.Value("error.arg"))
		case 4:
			n.Set("Code", Ident("var.code"))
			n.Set("Argument", Str("msg"))
		}
		return one(n)
	case "esi":
		return one(N("EsiStatement"))
	case "restart":
		return one(N("RestartStatement"))
	case "log":
		return one(N("LogStatement", "Value", g.Value("log.value")))
	case "synthetic":
		return one(N("SyntheticStatement", "Value", g.Value("synthetic.value")))
	case "synthetic.base64":
		return one(N("SyntheticBase64Statement", "Value", g.Value("synthetic64.value")))
	case "return":
		n := N("ReturnStatement", "ReturnExpression", Ident("lookup"), "HasParenthesis", true)
		switch c.Choose(5, "return.form") {
		case 1:
			n.Set("HasParenthesis", false)
		case 2:
			n.Set("ReturnExpression", nil)
			n.Set("HasParenthesis", false)
		case 3:
			n.Set("ReturnExpression", Ident(pick(c, "return.state", "pass", "deliver", "restart", "error", "hash", "fetch", "deliver_stale", "hit_for_pass")))
		case 4:
			n.Set("ReturnExpression", Ident("deliver"))
		}
		return one(n)
	case "goto":
		return []*Node{N("GotoStatement", "Destination", Ident("lbl")), N("GotoDestinationStatement", "Name", Ident("lbl:"))}
	case "block":
		if depth <= 0 {
			return one(Block(N("EsiStatement")))
		}
		return one(Block(g.body("block.body", depth-1)...))
	case "fncall":
		n := N("FunctionCallStatement", "Function", Ident("std.collect"), "Arguments", []*Node{Ident("req.http.A")})
		switch c.Choose(3, "fncall.args") {
		case 1:
			n.Set("Arguments", []*Node{})
			n.Set("Function", Ident("h2.disable_header_compression"))
		case 2:
			n.Set("Function", Ident("header.set"))
			n.Set("Arguments", []*Node{Ident("req"), Str("n"), g.Value("fncall.arg")})
		}
		return one(n)
	case "include":
		return one(N("IncludeStatement", "Module", Str(pick(c, "include.name", "mod", "dir/mod.vcl"))))
	case "import":
		return one(N("ImportStatement", "Name", Ident("boltsort")))
	case "if":
		n := If(g.Cond("if.cond"), g.body("if.body", depth-1)...)
		na := c.Choose(4, "if.another")
		var another []*Node
		for i := 0; i < na; i++ {
			kw := pick(c, "if.keyword"+strconv.Itoa(i), "else if", "elseif", "elsif")
			another = append(another, ElseIf(kw, g.Cond("if.cond"+strconv.Itoa(i)), g.body("elseif.body"+strconv.Itoa(i), depth-1)...))
		}
		if another == nil {
			another = []*Node{}
		}
		n.Set("Another", another)
		if c.Bool("if.else") {
			n.Set("Alternative", Else(g.body("else.body", depth-1)...))
		}
		return one(n)
	case "switch":
		ctl := pick(c, "switch.control", Ident("req.http.A"), Call("std.tolower", Ident("req.http.A")), Str("lit"),
			// an escaped percent sign in a literal of the control expression, and a concatenation as argument
			Call("std.tolower", Concat(Ident("req.http.A"), false, StrSrc("x%2541", "x%41"))), StrSrc("l%2541", "l%41"))
		ncase := 1 + c.Choose(3, "switch.ncases")
		var cases []*Node
		for i := 0; i < ncase; i++ {
			op := pick(c, "case.op"+strconv.Itoa(i), "==", "~")
			label := "c" + strconv.Itoa(i)
			if i == 1 && c.Bool("case.samelabel"+strconv.Itoa(i)) {
				// the same label text as the first case, under the other operator: not a duplicate
				label = "c0"
				if cases[0].Child("Test").Str("Operator") == op {
					op = map[string]string{"==": "~", "~": "=="}[op]
				}
			}
			test := N("InfixExpression", "Left", nil, "Operator", op, "Explicit", false, "Right", Str(label))
			var body []*Node
			ft := false
			switch c.Choose(4, "case.body"+strconv.Itoa(i)) {
			case 0:
				body = []*Node{N("EsiStatement"), N("BreakStatement")}
			case 1:
				body = []*Node{N("BreakStatement")}
			case 2:
				if i < ncase-1 || true {
					body = []*Node{Set("req.http.C", "=", Str("x")), N("FallthroughStatement")}
					ft = true
				}
			case 3:
				body = append(g.body("case.stmts"+strconv.Itoa(i), depth-1), N("BreakStatement"))
			}
			cases = append(cases, N("CaseStatement", "Test", test, "Statements", body, "Fallthrough", ft))
		}
		def := int64(-1)
		switch c.Choose(3, "switch.default") {
		case 1:
			cases = append(cases, N("CaseStatement", "Test", nil, "Statements", []*Node{N("RestartStatement"), N("BreakStatement")}, "Fallthrough", false))
			def = int64(len(cases) - 1)
		case 2:
			cases = append([]*Node{N("CaseStatement", "Test", nil, "Statements", []*Node{N("BreakStatement")}, "Fallthrough", false)}, cases...)
			def = 0
		}
		// a final fallthrough is a documented syntax error: end the last case with break
		last := cases[len(cases)-1]
		if last.Bool("Fallthrough") {
			last.Set("Fallthrough", false)
			st := last.List("Statements")
			st[len(st)-1] = N("BreakStatement")
		}
		return one(N("SwitchStatement", "Control", N("SwitchControl", "Expression", ctl), "Cases", cases, "Default", def))
	}
	panic("unknown statement kind " + kind)
}

// body derives a short statement list: default one `esi;`.
func (g G) body(label string, depth int) []*Node {
	c := g.C
	switch c.Choose(5, label) {
	case 0:
		return []*Node{N("EsiStatement")}
	case 1:
		return []*Node{}
	case 2:
		return []*Node{Set("req.http.A", "=", Str("v")), N("RestartStatement")}
	case 3:
		if depth > 0 {
			k := StatementKinds[c.Choose(len(StatementKinds), label+".kind")]
			if k == "import" {
				k = "esi"
			}
			return g.Statement(k, depth-1)
		}
		return []*Node{N("ReturnStatement", "ReturnExpression", Ident("pass"), "HasParenthesis", true)}
	default:
		return []*Node{N("LogStatement", "Value", Str("x")), If(Ident("req.http.A"), N("EsiStatement"))}
	}
}

// Decl derives one declaration of the given kind.
func (g G) Decl(kind string, depth int) *Node {
	c := g.C
	switch kind {
	case "acl":
		entry := func(inv bool, ip string, mask int64) *Node {
			var i, m *Node
			if inv {
				i = Bool(true)
			}
			if mask >= 0 {
				m = Int(mask)
			}
			return N("AclCidr", "Inverse", i, "IP", N("IP", "Value", ip), "Mask", m)
		}
		var cidrs []*Node
		switch c.Choose(7, "acl.entries") {
		case 6:
			cidrs = []*Node{entry(false, "0.0.0.0", 0), entry(false, "::", 0), entry(true, "10.0.0.1", 32), entry(false, "2001:db8::1", 128)}
		case 0:
			cidrs = []*Node{entry(false, "192.168.0.1", -1)}
		case 1:
			cidrs = []*Node{}
		case 2:
			cidrs = []*Node{entry(false, "10.0.0.0", 8), entry(true, "10.1.2.3", -1)}
		case 3:
			cidrs = []*Node{entry(true, "10.0.0.0", 24)}
		case 4:
			cidrs = []*Node{entry(false, "2001:db8::", 32), entry(false, "::1", -1)}
		case 5:
			cidrs = []*Node{entry(false, "localhost", -1), entry(false, "10.0.0.0", 8), entry(false, "10.0.0.0", 8)}
		}
		return N("AclDeclaration", "Name", Ident(pick(c, "acl.name", "internal", "a_b-c")), "CIDRs", cidrs)
	case "backend":
		prop := func(k string, v *Node) *Node { return N("BackendProperty", "Key", Ident(k), "Value", v) }
		props := []*Node{prop("host", Str("example.com"))}
		switch c.Choose(6, "backend.props") {
		case 1:
			props = []*Node{}
		case 2:
			props = append(props, prop("port", Str("443")), prop("ssl", Bool(true)), prop("connect_timeout", RTime("1s")), prop("max_connections", Int(200)), prop("between_bytes_timeout", RTime("10s")))
		case 3:
			props = append(props, prop("probe", N("BackendProbeObject", "Values", []*Node{
				prop("request", Concat(Concat(Str("GET / HTTP/1.1"), false, Str("Host: example.com")), false, Str("Connection: close"))),
				prop("interval", RTime("10s")), prop("threshold", Int(1)), prop("dummy", Bool(true)), prop("expected_response", Int(200)),
			})))
		case 4:
			props = append(props, prop("probe", N("BackendProbeObject", "Values", []*Node{})), prop("share_key", Str("k")))
		case 5:
			props = append(props, prop("ssl_sni_hostname", g.Value("backend.value")))
		}
		return N("BackendDeclaration", "Name", Ident(pick(c, "backend.name", "origin", "F_origin_0")), "Properties", props)
	case "director":
		dp := func(k string, v *Node) *Node { return N("DirectorProperty", "Key", Ident(k), "Value", v) }
		be := func(vals ...*Node) *Node { return N("DirectorBackendObject", "Values", vals) }
		props := []*Node{be(dp("backend", Ident("origin")), dp("weight", Int(1)))}
		switch c.Choose(5, "director.props") {
		case 1:
			props = []*Node{}
		case 2:
			props = []*Node{dp("quorum", N("PostfixExpression", "Left", Int(50), "Operator", "%")), dp("retries", Int(3)),
				be(dp("backend", Ident("origin")), dp("weight", Int(1))), be(dp("backend", Ident("F_b")), dp("weight", Int(2)))}
		case 3:
			props = []*Node{be(dp("backend", Ident("origin")), dp("id", Str("s1")), dp("weight", Int(1)))}
		case 4:
			props = []*Node{dp("key", Ident("object")), dp("seed", Int(1)), dp("vnodes_per_node", Int(40)), be(dp("backend", Ident("origin")))}
		}
		return N("DirectorDeclaration", "Name", Ident("dir"), "DirectorType", Ident(pick(c, "director.type", "random", "fallback", "hash", "client", "chash")), "Properties", props)
	case "table":
		tp := func(k string, v *Node, comma bool) *Node {
			return N("TableProperty", "Key", Str(k), "Value", v, "HasComma", comma)
		}
		var vt *Node
		props := []*Node{tp("k1", Str("v1"), true), tp("k2", Str("v2"), true)}
		switch c.Choose(9, "table.form") {
		case 1:
			props = []*Node{}
		case 2:
			props = []*Node{tp("k1", Str("v1"), true), tp("k2", Str("v2"), false)}
		case 3:
			vt = Ident("STRING")
		case 4:
			vt = Ident("BACKEND")
			props = []*Node{tp("k", Ident("origin"), true)}
		case 5:
			vt = Ident("INTEGER")
			props = []*Node{tp("a", Int(1), true), tp("b", Int(2), false)}
		case 6:
			vt = Ident("BOOL")
			props = []*Node{tp("a", Bool(true), true)}
		case 7:
			props = []*Node{N("TableProperty", "Key", StrSrc("k %41", "k A"), "Value", StrSrc("v%20w", "v w"), "HasComma", true), tp("long", LongStr("l \"q\" v", ""), true),
				// an escaped percent sign in front of two hex digits: printing the decoded value would decode once more
				N("TableProperty", "Key", StrSrc("k%2541", "k%41"), "Value", StrSrc("v%2541", "v%41"), "HasComma", true), tp("", Str(""), false)}
		case 8:
			vt = Ident(pick(c, "table.type", "FLOAT", "RTIME", "ACL", "IP"))
			switch vt.Str("Value") {
			case "FLOAT":
				props = []*Node{tp("a", Float(1.5), true)}
			case "RTIME":
				props = []*Node{tp("a", RTime("5m"), true)}
			case "ACL":
				props = []*Node{tp("a", Ident("internal"), true)}
			case "IP":
				props = []*Node{tp("a", Str("10.0.0.1"), true)}
			}
		}
		return N("TableDeclaration", "Name", Ident("tbl"), "ValueType", vt, "Properties", props)
	case "penaltybox":
		return N("PenaltyboxDeclaration", "Name", Ident("pbox"), "Block", Block())
	case "ratecounter":
		return N("RatecounterDeclaration", "Name", Ident("rc"), "Block", Block())
	case "import":
		return N("ImportStatement", "Name", Ident("boltsort"))
	case "include":
		return N("IncludeStatement", "Module", Str("mod"))
	case "sub":
		n := Sub(pick(c, "sub.name", "vcl_recv", "custom_sub", "vcl_deliver"))
		switch c.Choose(5, "sub.sig") {
		case 1:
			n.Set("ReturnType", Ident("STRING"))
			n.Hint("parens", "1")
			n.Set("Block", Block(N("ReturnStatement", "ReturnExpression", g.Value("sub.ret"), "HasParenthesis", false)))
			return n
		case 2:
			n.Set("Parameters", []*Node{N("SubroutineParameter", "Type", Ident("STRING"), "Name", Ident("var.a"))})
		case 3:
			n.Set("Parameters", []*Node{N("SubroutineParameter", "Type", Ident("STRING"), "Name", Ident("var.a")), N("SubroutineParameter", "Type", Ident("INTEGER"), "Name", Ident("var.b"))})
			n.Set("ReturnType", Ident("BOOL"))
			n.Set("Block", Block(N("ReturnStatement", "ReturnExpression", Bool(true), "HasParenthesis", true)))
			return n
		case 4:
			n.Hint("parens", "1")
		}
		n.Set("Block", Block(g.body("sub.body", depth)...))
		return n
	}
	panic("unknown declaration kind " + kind)
}

// Program derives a whole file: one declaration of a freely chosen kind, or a
// subroutine wrapping one statement of a freely chosen kind.
func (g G) Program(depth int) *Node {
	c := g.C
	nd, ns := len(DeclKinds), len(StatementKinds)
	k := c.Free(nd+ns, "program.kind")
	if k < nd {
		return VCL(g.Decl(DeclKinds[k], depth))
	}
	kind := StatementKinds[k-nd]
	if kind == "import" {
		return VCL(N("ImportStatement", "Name", Ident("boltsort")))
	}
	stmts := g.Statement(kind, depth)
	// optional neighbours so that order and "each appears once" are observable
	switch c.Choose(3, "program.neighbours") {
	case 1:
		stmts = append([]*Node{N("EsiStatement")}, append(stmts, N("RestartStatement"))...)
	case 2:
		return VCL(Sub("first", N("EsiStatement")), Sub("vcl_recv", stmts...), N("AclDeclaration", "Name", Ident("z"), "CIDRs", []*Node{}))
	}
	return VCL(Sub("vcl_recv", stmts...))
}

// Literal table for C02/C19: source spelling -> expected node.
func LiteralTable() []*Node {
	return []*Node{
		IntSrc("0", 0), IntSrc("1", 1), IntSrc("0755", 755), IntSrc("0x7FFFFFFFFFFFFFFF", math.MaxInt64), IntSrc("9223372036854775807", math.MaxInt64),
		IntSrc("0x5a5a", 0x5a5a), IntSrc("0Xff", 255),
		Prefix("-", IntSrc("0x8000000000000000", math.MinInt64)), Prefix("-", IntSrc("9223372036854775808", math.MinInt64)),
		Prefix("-", IntSrc("1", 1)),
		FloatSrc("1e3", 1000), FloatSrc("1.5e-3", 0.0015), FloatSrc("1e+3", 1000), FloatSrc("10.0", 10), FloatSrc("0x1.8p3", 12), FloatSrc("0xA.B", 10.6875), FloatSrc("0xA.Bp3", 85.5), FloatSrc("0.5", 0.5),
		// upper-case prefix combined with a hex fraction, with and without exponent (upper-case exponent markers are not documented: left out)
		FloatSrc("0X1.8", 1.5), FloatSrc("0XA.B", 10.6875), FloatSrc("0X1.8p1", 3), FloatSrc("0XAp0", 10),
		RTime("100ms"), RTime("1s"), RTime("5m"), RTime("2h"), RTime("3d"), RTime("1y"), RTime("1.5s"),
		StrSrc("%41", "A"), StrSrc("%u0041", "A"), StrSrc("%u{41}", "A"), StrSrc("%u{1F600}", "\U0001F600"), StrSrc("%E3%81%82", "あ"), StrSrc("a%25b", "a%b"),
		StrSrc("100%", "100%").Hint("mayreject", "1"),
		LongStr("%41", ""), LongStr("%u0041", "X"), LongStr("a\"b", ""), LongStr("multi\nline", ""), LongStr("", ""), Str(""),
		LongStr("has \"} inside", "D"), StrSrc("tab\there", "tab\there"),
		// literal (unescaped) non-ASCII text: 2-, 3- and 4-byte encodings, next to escapes that produce the same characters
		StrSrc("caf\u00e9", "caf\u00e9"), StrSrc("\u20ac", "\u20ac"), StrSrc("%E2%82%AC = \u20ac", "\u20ac = \u20ac"), StrSrc("\u65e5\u672c\u8a9e", "\u65e5\u672c\u8a9e"),
		StrSrc("\U0001F600!", "\U0001F600!"), StrSrc("\u043a\u043b\u044e\u0447", "\u043a\u043b\u044e\u0447"), LongStr("\u65e5\u672c\u8a9e \u20ac", ""),
		Bool(true), Bool(false),
	}
}
