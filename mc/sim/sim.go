// Package sim drives falco's real interpreter in-process through its public seams.
package sim

import (
	"bytes"
	"encoding/json"
	"fmt"
	"runtime/debug"
	"sort"
	"io"
	"net/http"
	"net/http/httptest"
	"strings"
	"sync"

	"github.com/ysugimoto/falco/v2/ast"
	"github.com/ysugimoto/falco/v2/interpreter"
	icontext "github.com/ysugimoto/falco/v2/interpreter/context"
	ihttp "github.com/ysugimoto/falco/v2/interpreter/http"
	"github.com/ysugimoto/falco/v2/lexer"
	"github.com/ysugimoto/falco/v2/parser"
	"github.com/ysugimoto/falco/v2/resolver"
)

// Capture is a silent debugger that records log output and messages.
type Capture struct {
	mu       sync.Mutex
	Logs     []string
	Messages []string
}

func (d *Capture) Run(ast.Node) interpreter.DebugState { return interpreter.DebugPass }
func (d *Capture) Message(m string) {
	d.mu.Lock()
	d.Messages = append(d.Messages, m)
	d.mu.Unlock()
}
func (d *Capture) Log(_ *ast.LogStatement, v string) {
	d.mu.Lock()
	d.Logs = append(d.Logs, v)
	d.mu.Unlock()
}

// Scopes by short name.
var Scopes = map[string]icontext.Scope{
	"recv": icontext.RecvScope, "hash": icontext.HashScope, "hit": icontext.HitScope,
	"miss": icontext.MissScope, "pass": icontext.PassScope, "fetch": icontext.FetchScope,
	"error": icontext.ErrorScope, "deliver": icontext.DeliverScope, "log": icontext.LogScope,
}

// ScopeNames in lifecycle order.
var ScopeNames = []string{"recv", "hash", "hit", "miss", "pass", "fetch", "error", "deliver", "log"}

// NewRequest builds the inbound request used by sub-level runs.
func NewRequest(method, url string, hdr [][2]string) *ihttp.Request {
	r := httptest.NewRequest(method, url, nil)
	for _, h := range hdr {
		r.Header.Add(h[0], h[1])
	}
	return ihttp.WrapRequest(r)
}

// RunSub parses main, initialises a fresh interpreter the way the test runner
// does, and executes the subroutine named sub in the given scope. It returns
// the captured log lines and the error (init or run).
func RunSub(main string, scope string, sub string) (logs []string, err error) {
	ip, cap, err := Prepare(main)
	if err != nil {
		return nil, err
	}
	err = CallSub(ip, scope, sub, main)
	return cap.Logs, err
}

// Prepare creates an interpreter over main and runs TestProcessInit.
func Prepare(main string, opts ...icontext.Option) (*interpreter.Interpreter, *Capture, error) {
	cap := &Capture{}
	all := append([]icontext.Option{icontext.WithResolver(resolver.NewStaticResolver("main.vcl", main))}, opts...)
	ip := interpreter.New(all...)
	ip.Debugger = cap
	if err := ip.TestProcessInit(NewRequest("GET", "http://example.com/path?q=1", [][2]string{{"X-A", "a"}})); err != nil {
		return ip, cap, err
	}
	return ip, cap, nil
}

// CallSub runs one subroutine in scope. The declaration node is obtained by
// parsing main again, exactly as the test runner hands a separately parsed
// node to ProcessTestSubroutine.
func CallSub(ip *interpreter.Interpreter, scope string, sub string, main string) error {
	decl, err := ParseSub(main, sub)
	if err != nil {
		return err
	}
	return ip.ProcessTestSubroutine(Scopes[scope], decl)
}

type simErr string

func (e simErr) Error() string { return string(e) }

const errNoSub = simErr("verif: subroutine not found")

// ParseSub parses src and returns the subroutine declaration named name.
func ParseSub(src, name string) (*ast.SubroutineDeclaration, error) {
	vcl, err := parser.New(lexer.NewFromString(src)).ParseVCL()
	if err != nil {
		return nil, err
	}
	for _, st := range vcl.Statements {
		if sd, ok := st.(*ast.SubroutineDeclaration); ok && sd.Name.Value == name {
			return sd, nil
		}
	}
	return nil, errNoSub
}

// StubTransport answers every backend request synchronously with a canned response.
type StubTransport struct {
	mu       sync.Mutex
	Requests []string
	// Respond may be nil (200, cacheable text body).
	Respond func(r *http.Request) *http.Response
}

func (t *StubTransport) RoundTrip(r *http.Request) (*http.Response, error) {
	t.mu.Lock()
	t.Requests = append(t.Requests, r.Method+" "+r.URL.String())
	t.mu.Unlock()
	if t.Respond != nil {
		if resp := t.Respond(r); resp != nil {
			return resp, nil
		}
	}
	body := "backend-body"
	return &http.Response{
		StatusCode: 200, Status: "200 OK", Proto: "HTTP/1.1", ProtoMajor: 1, ProtoMinor: 1,
		Header:        http.Header{"Content-Type": {"text/plain"}, "Cache-Control": {"max-age=3600"}},
		Body:          io.NopCloser(strings.NewReader(body)),
		ContentLength: int64(len(body)),
		Request:       r,
	}, nil
}

// InstallStub replaces the process-wide default transport (the interpreter
// sends backend requests through net/http's default client).
func InstallStub() *StubTransport {
	st := &StubTransport{}
	http.DefaultTransport = st
	http.DefaultClient.Transport = st
	return st
}

// Serve runs one request through ServeHTTP and returns status, headers, body.
func Serve(ip *interpreter.Interpreter, method, url string, hdr [][2]string) (int, http.Header, []byte) {
	r := httptest.NewRequest(method, url, nil)
	for _, h := range hdr {
		r.Header.Add(h[0], h[1])
	}
	w := httptest.NewRecorder()
	ip.ServeHTTP(w, r)
	res := w.Result()
	var buf bytes.Buffer
	io.Copy(&buf, res.Body)
	return res.StatusCode, res.Header, buf.Bytes()
}

// NewServer creates an interpreter for ServeHTTP use with a capturing debugger.
func NewServer(main string, opts ...icontext.Option) (*interpreter.Interpreter, *Capture) {
	cap := &Capture{}
	all := append([]icontext.Option{icontext.WithResolver(resolver.NewStaticResolver("main.vcl", main))}, opts...)
	ip := interpreter.New(all...)
	ip.Debugger = cap
	return ip, cap
}

// Observation is what a client of the simulator can see of one request.
type Observation struct {
	HTTPStatus int
	Flows      []string // scope/subroutine (or process-mark name) in order
	Logs       []string
	Restarts   int
	Cached     bool
	Backend    string
	Error      string
	RespStatus int
	RespBytes  int
	Headers    map[string]string
	Panic      string
}

type processDoc struct {
	Flows []struct {
		Subroutine string `json:"subroutine"`
		Name       string `json:"name"`
		Scope      string `json:"scope"`
	} `json:"flows"`
	Logs []struct {
		Message string `json:"message"`
	} `json:"logs"`
	Restarts int    `json:"restarts"`
	Backend  string `json:"backend"`
	Cached   bool   `json:"cached"`
	Error    string `json:"error"`
	Client   struct {
		StatusCode int               `json:"status_code"`
		BodyBytes  int               `json:"body_bytes"`
		Headers    map[string]string `json:"headers"`
	} `json:"client_response"`
}

// volatile headers never compared
var volatile = map[string]bool{"date": true, "age": true, "x-timer": true, "fastly-debug-ttl": true}

// Observe runs one request through ServeHTTP and decodes the process document.
func Observe(ip *interpreter.Interpreter, method, url string, hdr [][2]string) (o Observation) {
	defer func() {
		if r := recover(); r != nil {
			o.Panic = fmt.Sprint(r) + "\n" + string(debug.Stack())
		}
	}()
	st, _, body := Serve(ip, method, url, hdr)
	o.HTTPStatus = st
	var d processDoc
	if err := json.Unmarshal(body, &d); err != nil {
		o.Error = "non-JSON response: " + strings.TrimSpace(string(body))
		return o
	}
	for _, f := range d.Flows {
		n := f.Subroutine
		if n == "" {
			n = "mark:" + f.Name
		}
		o.Flows = append(o.Flows, f.Scope+"/"+n)
	}
	for _, l := range d.Logs {
		o.Logs = append(o.Logs, l.Message)
	}
	o.Restarts, o.Backend, o.Cached, o.Error = d.Restarts, d.Backend, d.Cached, d.Error
	o.RespStatus, o.RespBytes = d.Client.StatusCode, d.Client.BodyBytes
	o.Headers = map[string]string{}
	for k, v := range d.Client.Headers {
		if !volatile[k] {
			o.Headers[k] = v
		}
	}
	return o
}

// String renders an observation canonically (sorted headers).
func (o Observation) String() string {
	ks := make([]string, 0, len(o.Headers))
	for k := range o.Headers {
		ks = append(ks, k)
	}
	sort.Strings(ks)
	var hs []string
	for _, k := range ks {
		hs = append(hs, k+"="+o.Headers[k])
	}
	p := ""
	if o.Panic != "" {
		p = " PANIC"
	}
	return fmt.Sprintf("http=%d flows=%v logs=%q restarts=%d cached=%v backend=%s error=%q status=%d bytes=%d headers=%v%s",
		o.HTTPStatus, o.Flows, o.Logs, o.Restarts, o.Cached, o.Backend, o.Error, o.RespStatus, o.RespBytes, hs, p)
}


// RunProbe runs the subroutine `probe` of probeSrc (parsed separately, like a test
// file) against a minimal main VCL: one parse of the probe per run.
func RunProbe(probeSrc, scope string) ([]string, error) {
	ip, cap, err := Prepare("sub vcl_recv { }\n")
	if err != nil {
		return nil, err
	}
	decl, err := ParseSub(probeSrc, "probe")
	if err != nil {
		return nil, err
	}
	err = ip.ProcessTestSubroutine(Scopes[scope], decl)
	return cap.Logs, err
}


// RunProbeIn is RunProbe with a caller-supplied main VCL (declarations the probe refers to).
func RunProbeIn(main, probeSrc, scope string) ([]string, error) {
	ip, cap, err := Prepare(main)
	if err != nil {
		return nil, err
	}
	decl, err := ParseSub(probeSrc, "probe")
	if err != nil {
		return nil, err
	}
	err = ip.ProcessTestSubroutine(Scopes[scope], decl)
	return cap.Logs, err
}

// MemResolver resolves includes of the simulator from memory.
type MemResolver struct {
	Main    string
	Modules map[string]string
}

func (m *MemResolver) MainVCL() (*resolver.VCL, error) {
	return &resolver.VCL{Name: "main.vcl", Data: m.Main}, nil
}

func (m *MemResolver) Resolve(stmt *ast.IncludeStatement) (*resolver.VCL, error) {
	if src, ok := m.Modules[stmt.Module.Value]; ok {
		return &resolver.VCL{Name: stmt.Module.Value, Data: src}, nil
	}
	return nil, fmt.Errorf("module %s not found", stmt.Module.Value)
}

func (m *MemResolver) Name() string           { return "mem" }
func (m *MemResolver) IncludePaths() []string { return nil }

// NewServerWith creates an interpreter over an arbitrary resolver.
func NewServerWith(r resolver.Resolver, opts ...icontext.Option) (*interpreter.Interpreter, *Capture) {
	cap := &Capture{}
	all := append([]icontext.Option{icontext.WithResolver(r)}, opts...)
	ip := interpreter.New(all...)
	ip.Debugger = cap
	return ip, cap
}
