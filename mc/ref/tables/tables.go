// Package tables loads falco's bundled Fastly reference tables
// (__generator__/predefined.yml, builtin.yml) from /repo at run time.
package tables

import (
	"os"
	"sort"

	"gopkg.in/yaml.v3"
)

// Scopes in lifecycle order, as spelled in the YAML files.
var Scopes = []string{"RECV", "HASH", "HIT", "MISS", "PASS", "FETCH", "ERROR", "DELIVER", "LOG"}

// Variable is one predefined variable.
type Variable struct {
	Name  string
	On    []string `yaml:"on"`
	Get   string   `yaml:"get"`
	Set   string   `yaml:"set"`
	Unset bool     `yaml:"unset"`
}

// Function is one built-in function.
type Function struct {
	Name      string
	On        []string   `yaml:"on"`
	Arguments [][]string `yaml:"arguments"`
	Return    string     `yaml:"return"`
	Extra     string     `yaml:"extra"`
}

func repoPath(rel string) string {
	root := os.Getenv("VERIF_REPO")
	if root == "" {
		root = "/repo"
	}
	return root + "/" + rel
}

// Variables loads predefined.yml.
func Variables() ([]Variable, error) {
	b, err := os.ReadFile(repoPath("__generator__/predefined.yml"))
	if err != nil {
		return nil, err
	}
	m := map[string]Variable{}
	if err := yaml.Unmarshal(b, &m); err != nil {
		return nil, err
	}
	var out []Variable
	for k, v := range m {
		v.Name = k
		out = append(out, v)
	}
	sort.Slice(out, func(i, j int) bool { return out[i].Name < out[j].Name })
	return out, nil
}

// Functions loads builtin.yml.
func Functions() ([]Function, error) {
	b, err := os.ReadFile(repoPath("__generator__/builtin.yml"))
	if err != nil {
		return nil, err
	}
	m := map[string]Function{}
	if err := yaml.Unmarshal(b, &m); err != nil {
		return nil, err
	}
	var out []Function
	for k, v := range m {
		v.Name = k
		out = append(out, v)
	}
	sort.Slice(out, func(i, j int) bool { return out[i].Name < out[j].Name })
	return out, nil
}

// Has reports whether scope is in list.
func Has(list []string, scope string) bool {
	for _, s := range list {
		if s == scope {
			return true
		}
	}
	return false
}
