// Package c09: comments and layout never change what a program means.
package c09

import (
	"fmt"
	"strings"

	"github.com/ysugimoto/falco/v2/lexer"
	"github.com/ysugimoto/falco/v2/parser"

	"verif/mc/engine"
	"verif/mc/gen"
	"verif/mc/lintx"
	"verif/mc/sim"
)

// Case is a base program and a decorated variant of it.
type Case struct {
	Base    string `json:"base"`
	Variant string `json:"variant"`
	Exec    bool   `json:"exec"`     // compare simulator observations too
	Must    bool   `json:"must"`     // the gap is a documented placeholder: the variant must parse
	Where   string `json:"where"`    // slot name(s) or gap:<prev>|<next>
	Deco    string `json:"deco"`     // decoration kind
	Prog    string `json:"prog"`     // program kind
	// for a pair of decorations: the two single-decoration variants (a pair is only reported
	// when neither single decoration alone shows the same kind of difference)
	Singles []string `json:"singles,omitempty"`
	// the base program is one the parser refuses (e.g. duplicate case labels): the variant must be refused too
	Rejected bool `json:"rejected,omitempty"`
}

type deco struct {
	name string
	mk   func() gen.Deco
}

var decos = []struct {
	name, text, role string
}{
	{"block", "/* c */", "inline"},
	{"sharp", "# c", "inline"},
	{"slash", "// c", "inline"},
	{"block-stars", "/** c **/", "inline"},
	{"block-even-close", "/* c **/", "inline"},
	{"block-empty", "/**/", "inline"},
	{"block-multiline", "/* c\n * d\n */", "inline"},
	{"blank-lines", "\n\n", "raw"},
	{"tab-spaces", "\t  ", "raw"},
	{"newline", "\n", "raw"},
	// comment text that looks like code: parentheses (capture groups are counted in patterns), quotes, a semicolon
	{"block-parens", "/* (c) (d \"e\"; */", "inline"},
	{"sharp-parens", "# (c) (d \"e\";", "inline"},
	{"carriage-return", "\r", "raw"},
	{"crlf", "\r\n", "raw"},
}

// executable programs (simulator half); literals need no escapes
var execPrograms = []string{
	`backend origin { .host = "example.com"; .port = "80"; }
acl internal { "10.0.0.0"/8; !"10.1.2.3"; "192.0.2.1"; }
table tbl { "k1": "v1", "k2": "v2" }
sub helper { set req.http.Helper = "called"; }
sub fn(STRING var.a) STRING { return var.a "-x"; }
sub vcl_recv {
  declare local var.s STRING;
  declare local var.i INTEGER;
  set var.s = "a" req.http.X-Req;
  set var.i = -9223372036854775808;
  log "min " var.i;
  set var.i = 3;
  set var.i += 4;
  set req.http.Foo = var.s + "b" var.i;
  if (req.http.X-Req == "1" && req.url ~ "^/a") { set req.http.Branch = "one"; } else if (req.http.X-Req ~ "2") { set req.http.Branch = "two"; } else { set req.http.Branch = "other"; }
  unset req.http.Nothing;
  add req.http.Multi = "m1";
  call helper;
  set req.http.Fn = fn("p");
  set req.http.Tbl = table.lookup(tbl, "k1", "none");
  if (client.ip ~ internal) { set req.http.Internal = "yes"; }
  switch (req.http.Branch) { case "one": set req.http.Sw = "1"; break; case ~ "^t": set req.http.Sw = "2"; fallthrough; default: set req.http.Sw = req.http.Sw "d"; break; }
  log "recv " req.http.Foo " " req.http.Branch " " req.http.Helper " " req.http.Fn " " req.http.Tbl " " req.http.Sw;
  set req.backend = origin;
  return(lookup);
}
sub vcl_fetch { set beresp.ttl = 60s; set beresp.http.X-F = "f"; log "fetch " beresp.status; return(deliver); }
sub vcl_deliver { set resp.http.X-D = "d" resp.http.X-F; log "deliver"; return(deliver); }
sub vcl_log { log "log"; }
`,
	`sub vcl_recv {
  if (req.http.X-Req == "1") { error 601 "custom"; }
  if (req.restarts == 0 && req.http.X-Req == "2") { set req.http.R = "r"; restart; }
  return(pass);
}
sub vcl_error {
  set obj.status = 418;
  set obj.http.X-E = "e";
  synthetic "body " obj.status;
  return(deliver);
}
sub vcl_pass { log "pass"; return(pass); }
sub vcl_fetch { log "fetch"; return(deliver); }
sub vcl_deliver { log "deliver " resp.status; return(deliver); }
sub vcl_log { log "log " req.restarts; }
`,
	`sub vcl_recv { return(lookup); }
sub vcl_hash { set req.hash += req.url; return(hash); }
sub vcl_miss { log "miss"; return(fetch); }
sub vcl_hit { log "hit"; return(deliver); }
sub vcl_fetch { if (beresp.status == 200) { set beresp.ttl = 10s; return(deliver); } return(pass); }
sub vcl_deliver { if (fastly_info.state ~ "^HIT") { set resp.http.X-H = "hit"; } return(deliver); }
`,
}

// negative base programs: they are rejected, and a comment must not make them acceptable
var rejectedPrograms = []string{
	`sub vcl_recv {
  switch (req.http.A) { case "1": esi; break; case "1": esi; break; }
}
`,
	`sub vcl_recv {
  switch (req.http.A) { case ~ "^a": esi; break; case ~ "^a": esi; break; default: break; }
}
`,
}

func init() {
	execPrograms = append(execPrograms, `backend b1 { .host = "example.com"; .port = "80"; }
backend b2 { .host = "example.org"; .port = "80"; .connect_timeout = 1s; }
backend b3 { .host = "example.net"; .port = "80"; }
director dh hash { .quorum = 1%; { .backend = b1; .weight = 1; } { .backend = b2; .weight = 1; } { .backend = b3; .weight = 1; } }
director dc client { .quorum = 1%; { .backend = b1; .weight = 1; } { .backend = b2; .weight = 1; } { .backend = b3; .weight = 1; } }
ratecounter rc1 { }
penaltybox pb1 { }
table tbl { "k1": "v1" }
sub vcl_recv {
  declare local var.n INTEGER;
  set req.http.Copy = header.get(req, "X-Req");
  header.set(req, "X-Flag", "on");
  header.unset(req, "X-Gone");
  set var.n = ratelimit.ratecounter_increment(rc1, "k", 1);
  if (ratelimit.check_rate("k", rc1, 1, 10, 100, pb1, 1m)) { set req.http.Limited = "1"; }
  if (table.contains(tbl, "k1")) { set req.http.Has = "1"; }
  set req.http.Re2 = regsuball(req.url, "a", "b");
  log "recv " req.http.Copy " " req.http.X-Flag " " var.n " " req.http.Limited " " req.http.Has " " req.http.Re2;
  if (req.url ~ "^/(c|d)") { set req.backend = dh; } else if (req.url ~ "^/(e|f)") { set req.backend = dc; } else { set req.backend = b2; }
  return(pass);
}
sub vcl_hash { set req.hash += req.url; return(hash); }
sub vcl_deliver { set resp.http.X-Backend = req.backend; return(deliver); }
sub lint_only { set req.http.Re = regsub(req.url, req.http.Pattern, "x"); }
`)
}

func parses(src string) bool {
	_, err := parser.New(lexer.NewFromString(src)).ParseVCL()
	return err == nil
}

func gen09(tier string, emit func(Case)) {
	thorough := tier == "thorough"
	genRejected(emit)
	genAnnotated(emit)
	genSignGap(emit)
	type prog struct {
		root *gen.Node
		kind string
		exec bool
	}
	var progs []prog
	engine.Explore(1, 0, func(c *engine.C) {
		root := gen.G{C: c}.Program(1)
		progs = append(progs, prog{root, kindOf(root), false})
	})
	for i, src := range execPrograms {
		vcl, err := parser.New(lexer.NewFromString(src)).ParseVCL()
		if err != nil {
			panic(fmt.Sprintf("exec program %d does not parse: %v", i, err))
		}
		progs = append(progs, prog{gen.FromAST(vcl.Statements), fmt.Sprintf("exec%d", i), true})
	}
	// lint-only programs whose diagnostics depend on counting: capture groups of patterns vs. re.group.N uses
	for i, src := range []string{
		"sub vcl_recv {\n  if (req.url ~ \"^/v1/(.*)$\") {\n    set req.http.X-Tail = re.group.2;\n  }\n  if (req.http.A !~ \"(a)(b)\") {\n    set req.http.B = re.group.1;\n  }\n  set req.http.C = if(req.url ~ \"(c)\", re.group.1, re.group.3);\n}\n",
		"sub vcl_recv {\n  if (req.url ~ \"(a)\" && req.http.B ~ \"(b)(c)\") {\n    set req.http.G = re.group.2 re.group.3;\n  } else if (req.url ~ \"x\") {\n    set req.http.G = re.group.1;\n  }\n}\n",
	} {
		vcl, err := parser.New(lexer.NewFromString(src)).ParseVCL()
		if err != nil {
			panic(fmt.Sprintf("lint program %d does not parse: %v", i, err))
		}
		progs = append(progs, prog{gen.FromAST(vcl.Statements), fmt.Sprintf("lint%d", i), false})
	}
	for _, p := range progs {
		toks := gen.Tokens(p.root)
		base := gen.Render(toks, gen.Layout{Newline: true}, nil)
		if !parses(base) {
			continue
		}
		where := func(i int) (string, bool) {
			if len(toks[i].Pre) > 0 {
				var ns []string
				for _, s := range toks[i].Pre {
					ns = append(ns, s.Name)
				}
				return strings.Join(ns, "+"), true
			}
			prev := "<start>"
			if i > 0 {
				prev = tokShape(toks[i-1].Text)
			}
			return "gap:" + toks[i].Kind + ":" + prev + "|" + tokShape(toks[i].Text), false
		}
		// the whole file with CRLF line ends
		emit(Case{Base: base, Variant: strings.ReplaceAll(base, "\n", "\r\n"), Exec: p.exec, Must: true, Where: "every-line-end", Deco: "crlf", Prog: p.kind})
		for i := range toks {
			w, must := where(i)
			for _, d := range decos {
				v := gen.Render(toks, gen.Layout{Newline: true}, []gen.Deco{{Index: i, Text: d.text, Role: d.role}})
				emit(Case{Base: base, Variant: v, Exec: p.exec, Must: must, Where: w, Deco: d.name, Prog: p.kind})
			}
		}
		if thorough || p.exec {
			// pairs of gaps within one statement (all pairs for thorough; comment pairs for exec programs)
			for i := range toks {
				for j := i + 1; j < len(toks); j++ {
					if toks[i].Stmt != toks[j].Stmt {
						continue
					}
					if !thorough && j > i+3 {
						continue
					}
					wi, mi := where(i)
					wj, mj := where(j)
					for _, dp := range [][2]int{{0, 1}, {2, 0}, {1, 3}} {
						a, b := decos[dp[0]], decos[dp[1]]
						v := gen.Render(toks, gen.Layout{Newline: true}, []gen.Deco{{Index: i, Text: a.text, Role: a.role}, {Index: j, Text: b.text, Role: b.role}})
						s1 := gen.Render(toks, gen.Layout{Newline: true}, []gen.Deco{{Index: i, Text: a.text, Role: a.role}})
						s2 := gen.Render(toks, gen.Layout{Newline: true}, []gen.Deco{{Index: j, Text: b.text, Role: b.role}})
						emit(Case{Base: base, Variant: v, Exec: p.exec, Must: mi && mj, Where: wi + " & " + wj, Deco: a.name + "+" + b.name, Prog: p.kind, Singles: []string{s1, s2}})
					}
				}
			}
		}
	}
}

// genAnnotated: an ordinary comment next to an annotation comment (@scope) must not change how the annotation is read.
// The base program carries the annotation alone; variants add one comment before or after it, in each marker style.
func genAnnotated(emit func(Case)) {
	progs := []struct{ name, pre, ann, post string }{
		{"annotated-sub", "sub vcl_recv {\n  #FASTLY recv\n  call set_marker;\n}\n", "@scope: deliver", "sub set_marker {\n  set resp.http.X-Marker = \"1\";\n}\n"},
		{"annotated-sub-two-scopes", "", "@scope: recv, deliver", "sub both {\n  set req.http.X = \"1\";\n}\nsub vcl_recv {\n  #FASTLY recv\n  call both;\n}\n"},
		{"annotated-unused-sub", "", "@scope: fetch", "sub only_fetch {\n  set beresp.ttl = 1s;\n}\n"},
	}
	for _, p := range progs {
		for _, m := range []string{"//", "#"} {
			base := p.pre + m + " " + p.ann + "\n" + p.post
			for _, c := range []string{"// c", "# c", "/* c */", "/** c **/", "// c\n// d"} {
				emit(Case{Base: base, Variant: p.pre + c + "\n" + m + " " + p.ann + "\n" + p.post, Must: true, Where: "before-annotation", Deco: "comment", Prog: p.name})
				emit(Case{Base: base, Variant: p.pre + m + " " + p.ann + "\n" + c + "\n" + p.post, Must: true, Where: "after-annotation", Deco: "comment", Prog: p.name})
				emit(Case{Base: base, Variant: p.pre + c + "\n" + m + " " + p.ann + "\n" + c + "\n" + p.post, Must: true, Where: "around-annotation", Deco: "comment", Prog: p.name})
			}
		}
	}
}

// genSignGap: layout and comments between a unary minus and its operand, for boundary literals whose acceptance
// depends on the sign (2^63 in decimal and hex), in set, declare, comparison and argument positions.
func genSignGap(emit func(Case)) {
	for _, lit := range []string{"9223372036854775808", "0x8000000000000000", "9223372036854775807", "1", "1.5", "5s"} {
		typ := "INTEGER"
		if strings.Contains(lit, ".") && !strings.HasPrefix(lit, "0x") {
			typ = "FLOAT"
		} else if strings.HasSuffix(lit, "s") && !strings.HasPrefix(lit, "0x") {
			typ = "RTIME"
		}
		tmpl := "sub vcl_recv {\n  #FASTLY recv\n  declare local var.v " + typ + ";\n  set var.v = -GAP" + lit + ";\n  log \"v=\" var.v;\n  if (var.v == -GAP" + lit + ") { log \"eq\"; }\n  return(pass);\n}\n"
		base := strings.ReplaceAll(tmpl, "GAP", "")
		for _, g := range []struct{ name, text string }{{"space", " "}, {"tab", "\t"}, {"newline", "\n"}, {"block", "/* c */"}, {"block-spaces", " /* c */ "}, {"sharp", " # c\n"}, {"slash", "// c\n"}} {
			emit(Case{Base: base, Variant: strings.ReplaceAll(tmpl, "GAP", g.text), Exec: true, Must: true, Where: "between-minus-and-literal", Deco: g.name, Prog: "sign-gap " + typ})
		}
	}
}

// genRejected: a program the parser refuses stays refused with a comment at any documented placeholder.
func genRejected(emit func(Case)) {
	for i, src := range rejectedPrograms {
		if parses(src) {
			panic(fmt.Sprintf("rejected program %d parses", i))
		}
		// tokens are taken from a parseable twin (second case label changed), then the label is put back
		twin := strings.Replace(src, `case "1": esi; break; }`, `case "2": esi; break; }`, 1)
		twin = strings.Replace(twin, `case ~ "^a": esi; break; default`, `case ~ "^b": esi; break; default`, 1)
		vcl, err := parser.New(lexer.NewFromString(twin)).ParseVCL()
		if err != nil {
			panic(err)
		}
		toks := gen.Tokens(gen.FromAST(vcl.Statements))
		back := func(v string) string {
			v = strings.Replace(v, `"2"`, `"1"`, 1)
			return strings.Replace(v, `"^b"`, `"^a"`, 1)
		}
		base := back(gen.Render(toks, gen.Layout{Newline: true}, nil))
		for ti := range toks {
			if len(toks[ti].Pre) == 0 {
				continue
			}
			for _, d := range decos {
				if d.role != "inline" {
					continue
				}
				v := back(gen.Render(toks, gen.Layout{Newline: true}, []gen.Deco{{Index: ti, Text: d.text, Role: d.role}}))
				emit(Case{Base: base, Variant: v, Rejected: true, Where: toks[ti].Pre[0].Name, Deco: d.name, Prog: fmt.Sprintf("rejected%d", i)})
			}
		}
	}
}

func tokShape(t string) string {
	switch {
	case t == "":
		return "<end>"
	case strings.HasPrefix(t, "\""), strings.HasPrefix(t, "{\""):
		return "STR"
	case t[0] >= '0' && t[0] <= '9':
		return "NUM"
	case t[0] == '.' && len(t) > 1:
		return ".prop"
	case isKeyword(t):
		return t
	case t[0] >= 'a' && t[0] <= 'z' || t[0] >= 'A' && t[0] <= 'Z':
		return "ID"
	}
	return t
}

func isKeyword(t string) bool {
	switch t {
	case "sub", "acl", "table", "backend", "director", "set", "unset", "remove", "add", "call", "declare", "local", "error", "esi", "log", "restart", "return",
		"synthetic", "synthetic.base64", "if", "else", "elseif", "elsif", "switch", "case", "default", "break", "fallthrough", "goto", "include", "import", "penaltybox", "ratecounter", "true", "false":
		return true
	}
	return false
}

func kindOf(root *gen.Node) string {
	st := root.List("Statements")
	if len(st) == 0 {
		return "empty"
	}
	kind := st[len(st)-1].Kind
	if st[0].Kind == "SubroutineDeclaration" && len(st) == 1 {
		if b := st[0].Child("Block").List("Statements"); len(b) > 0 {
			kind = b[0].Kind
			if len(b) == 3 {
				kind = b[1].Kind
			}
		}
	}
	return kind
}

func observe(src string) []string {
	ip, _ := sim.NewServer(src)
	var out []string
	for _, r := range [][2]string{{"1", "/a?x=1"}, {"2", "/b"}, {"1", "/a?x=1"}, {"1", "/c"}, {"1", "/d"}, {"1", "/e"}, {"1", "/f"}, {"1", "/g"}, {"1", "/h"}, {"1", "/i"}, {"1", "/j"}} {
		o := sim.Observe(ip, "GET", "http://example.com"+r[1], [][2]string{{"X-Req", r[0]}})
		if o.Panic != "" {
			out = append(out, "PANIC "+strings.SplitN(o.Panic, "\n", 2)[0])
			continue
		}
		out = append(out, o.String())
	}
	return out
}

func diffKeys(a, b []string) string {
	ma := map[string]int{}
	for _, k := range a {
		ma[k]++
	}
	for _, k := range b {
		ma[k]--
	}
	var gone, added []string
	for k, n := range ma {
		for ; n > 0; n-- {
			gone = append(gone, k)
		}
		for ; n < 0; n++ {
			added = append(added, k)
		}
	}
	return fmt.Sprintf("lost %q, gained %q", gone, added)
}

func run(c Case) engine.Result {
	res := run1(c)
	if len(res.Findings) == 0 || len(c.Singles) == 0 {
		return res
	}
	// a pair: keep only the kinds of difference that no single decoration shows
	explained := map[string]bool{}
	for _, sv := range c.Singles {
		sc := c
		sc.Variant, sc.Singles = sv, nil
		for _, f := range run1(sc).Findings {
			explained[strings.SplitN(f.Class, "|", 2)[0]] = true
		}
	}
	var keep []engine.Finding
	for _, f := range res.Findings {
		if !explained[strings.SplitN(f.Class, "|", 2)[0]] {
			keep = append(keep, f)
		}
	}
	res.Findings = keep
	if len(keep) == 0 {
		res.Outcome = "explained-by-single-decoration"
	}
	return res
}

func run1(c Case) engine.Result {
	if c.Variant == c.Base {
		return engine.Result{Skipped: true}
	}
	cls := func(what string) string { return what + "|" + c.Where + "|" + c.Deco }
	if c.Rejected {
		if parses(c.Base) {
			return engine.Result{Skipped: true}
		}
		if parses(c.Variant) {
			_, berr := parser.New(lexer.NewFromString(c.Base)).ParseVCL()
			return engine.Result{NonTrivial: true, Outcome: "accepted", Findings: []engine.Finding{{
				Class:  cls("accepted"),
				What:   fmt.Sprintf("the program is rejected (%v) but accepted once decoration %s is put at %s", berr, c.Deco, c.Where),
				Detail: map[string]string{"base": c.Base, "variant": c.Variant},
			}}}
		}
		return engine.Result{NonTrivial: true, Outcome: "still-rejected"}
	}
	if !parses(c.Variant) {
		if c.Must {
			_, err := parser.New(lexer.NewFromString(c.Variant)).ParseVCL()
			return engine.Result{NonTrivial: true, Outcome: "rejected", Findings: []engine.Finding{{
				Class:  cls("rejected"),
				What:   fmt.Sprintf("decoration %s at documented placeholder %s is rejected: %v", c.Deco, c.Where, err),
				Detail: map[string]string{"variant": c.Variant},
			}}}
		}
		return engine.Result{Skipped: true}
	}
	res := engine.Result{NonTrivial: true, Outcome: "same"}
	lb := lintx.Lint(c.Base, nil)
	lv := lintx.Lint(c.Variant, nil)
	switch {
	case lv.PanicSite != "" && lb.PanicSite == "":
		res.Findings = append(res.Findings, engine.Finding{Class: cls("lint-panic@" + lv.PanicSite), What: "linter panics on the decorated program only: " + lv.PanicMsg, Detail: map[string]string{"variant": c.Variant}})
	case lv.PanicSite != "":
	case strings.Join(lb.Keys(), "\n") != strings.Join(lv.Keys(), "\n") || lb.Fatal != lv.Fatal:
		res.Findings = append(res.Findings, engine.Finding{
			Class:  cls("diagnostics"),
			What:   fmt.Sprintf("linter diagnostics change with decoration %s at %s: %s", c.Deco, c.Where, diffKeys(lb.Keys(), lv.Keys())),
			Detail: map[string]string{"base": c.Base, "variant": c.Variant},
		})
	}
	if c.Exec {
		ob, ov := observe(c.Base), observe(c.Variant)
		if strings.Join(ob, "\n") != strings.Join(ov, "\n") {
			first := ""
			for i := range ob {
				if i < len(ov) && ob[i] != ov[i] {
					first = fmt.Sprintf("request %d: base %s | variant %s", i+1, ob[i], ov[i])
					break
				}
			}
			res.Findings = append(res.Findings, engine.Finding{
				Class:  cls("simulation"),
				What:   fmt.Sprintf("simulation changes with decoration %s at %s: %s", c.Deco, c.Where, first),
				Detail: map[string]string{"base": c.Base, "variant": c.Variant},
			})
		}
	}
	if len(res.Findings) > 0 {
		res.Outcome = strings.SplitN(res.Findings[0].Class, "|", 2)[0]
	}
	return res
}

func init() {
	engine.Register(engine.Spec[Case]{
		ID:    "C09",
		Level: "exploration",
		Rule: "base programs = every statement/declaration derivation within 1 deviation (lint half) + 4 executable lifecycle programs (incl. ID-typed function arguments, a non-literal regex pattern, hash and client directors) (simulator half, 11 requests each through ServeHTTP with a stub backend); variants = each of 10 decorations (/* c */, # c, // c, /** c **/, /* c **/, /**/, a multi-line block comment, blank lines, tab+spaces, newline) in every gap between two consecutive tokens, one gap at a time (thorough / executable programs: pairs of gaps within a statement); a variant at a documented placeholder must parse; 2 programs the parser refuses (duplicate case labels) must stay refused with a comment at any placeholder; 3 programs with an @scope annotation x an ordinary comment before / after / around the annotation comment; elsewhere an unparseable variant is skipped; oracle: multiset of (rule, severity, message) and the fatal error equal to the base program's, and flows/logs/restarts/response identical; non-trivial = variant parses and differs from base; distinct = distinct (base, variant) Round 3: decorations carriage-return and CRLF, and every base program with CRLF line ends throughout. Round 4: decorations whose comment text looks like code (parentheses, quotes, a semicolon); two lint-only programs whose diagnostics depend on counting capture groups.",
		Gen:  gen09,
		Key:  func(c Case) string { return c.Base + "\x00" + c.Variant },
		Run:  run,
		Init: func(string) { sim.InstallStub() },
		Assumptions: []string{"comment text is the plain letter c, never an annotation, ignore directive or #FASTLY macro", "Date/Age/X-Timer response headers and elapsed times are excluded from the comparison"},
	})
}
