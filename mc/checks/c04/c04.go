// Package c04: the lint command's verdict is consistent (real binary, library-computed reference, cross-mode differential).
package c04

import (
	"bytes"
	"encoding/json"
	"fmt"
	"os"
	"os/exec"
	"path/filepath"
	"regexp"
	"sort"
	"strings"

	"github.com/ysugimoto/falco/v2/lexer"
	"github.com/ysugimoto/falco/v2/parser"

	"verif/mc/engine"
	"verif/mc/lintx"
)

// Case is one (program situation, rule overrides) cell; Run executes all six mode x verbosity combinations.
type Case struct {
	Situation string            `json:"situation"`
	Main      string            `json:"main"`
	Modules   map[string]string `json:"modules,omitempty"`
	Overrides map[string]string `json:"overrides,omitempty"`
}

type situation struct {
	name    string
	main    string
	modules map[string]string
}

const okSub = "sub vcl_recv {\n  #FASTLY recv\n  set req.http.A = \"a\";\n}\n"

func situations() []situation {
	return []situation{
		{"clean", okSub, nil},
		{"info-only", "sub vcl_recv {\n  #FASTLY recv\n  error 999;\n}\n", nil},
		{"warning-only", okSub + "sub unused_sub {\n  set req.http.B = \"b\";\n}\n", nil},
		{"error", "sub vcl_recv {\n  #FASTLY recv\n  set req.http.A = std.itoa(\"x\");\n}\n", nil},
		{"error+warning", "sub vcl_recv {\n  #FASTLY recv\n  set req.http.A = std.itoa(\"x\");\n}\nsub unused_sub {\n  set req.http.B = \"b\";\n}\n", nil},
		{"error+warning+info", "sub vcl_recv {\n  #FASTLY recv\n  set req.http.A = std.itoa(\"x\");\n  error 999;\n}\nsub unused_sub {\n  set req.http.B = \"b\";\n}\n", nil},
		{"error-ignored-next-line", "sub vcl_recv {\n  #FASTLY recv\n  // falco-ignore-next-line\n  set req.http.A = std.itoa(\"x\");\n}\n", nil},
		{"error-ignored-trailing", "sub vcl_recv {\n  #FASTLY recv\n  set req.http.A = std.itoa(\"x\"); // falco-ignore\n}\n", nil},
		{"error-ignored-range", "sub vcl_recv {\n  #FASTLY recv\n  // falco-ignore-start\n  set req.http.A = std.itoa(\"x\");\n  // falco-ignore-end\n  set req.http.B = \"b\";\n}\n", nil},
		{"two-errors-one-ignored", "sub vcl_recv {\n  #FASTLY recv\n  // falco-ignore-next-line\n  set req.http.A = std.itoa(\"x\");\n  set req.http.C = std.itoa(1, 2, 3);\n}\n", nil},
		{"syntax-error-main", "sub vcl_recv {\n  set req.http.A = ;\n}\n", nil},
		{"syntax-error-include", "include \"mod\";\n" + okSub, map[string]string{"mod.vcl": "sub broken {\n  set req.http.A = ;\n}\n"}},
		{"syntax-error-include-in-sub", "sub vcl_recv {\n  #FASTLY recv\n  include \"mod\";\n}\n", map[string]string{"mod.vcl": "set req.http.A = ;\n"}},
		{"syntax-error-include-then-good-include", "include \"mod\";\ninclude \"good\";\n" + okSub, map[string]string{"mod.vcl": "sub broken {\n  set req.http.A = ;\n}\n", "good.vcl": "sub from_good {\n  set req.http.G = \"g\";\n}\n"}},
		{"good-include-then-syntax-error-include", "include \"good\";\ninclude \"mod\";\n" + okSub, map[string]string{"mod.vcl": "sub broken {\n  set req.http.A = ;\n}\n", "good.vcl": "sub from_good {\n  set req.http.G = \"g\";\n}\n"}},
		{"syntax-error-in-nested-include-then-good", "include \"outer\";\n" + okSub, map[string]string{"outer.vcl": "include \"mod\";\ninclude \"good\";\n", "mod.vcl": "sub broken {\n  set req.http.A = ;\n}\n", "good.vcl": "sub from_good {\n  set req.http.G = \"g\";\n}\n"}},
		{"error-in-first-of-two-includes", "include \"mod\";\ninclude \"good\";\n" + okSub, map[string]string{"mod.vcl": "sub from_mod {\n  set req.http.A = std.itoa(\"x\");\n}\n", "good.vcl": "sub from_good {\n  set req.http.G = \"g\";\n}\n"}},
		{"missing-include", "include \"nosuch\";\n" + okSub, nil},
		{"error-in-include", "include \"mod\";\n" + okSub, map[string]string{"mod.vcl": "sub from_mod {\n  set req.http.A = std.itoa(\"x\");\n}\n"}},
		{"warning-in-include", "include \"mod\";\n" + okSub, map[string]string{"mod.vcl": "sub from_mod {\n  set req.http.A = \"a\";\n}\n"}},
		{"include-cycle", "include \"mod\";\n" + okSub, map[string]string{"mod.vcl": "include \"mod\";\nsub from_mod {\n  set req.http.A = \"a\";\n}\n"}},
		{"snippet-with-scope", "// @scope: recv\nset req.http.A = \"a\";\n", nil},
		{"snippet-without-scope", "set req.http.A = \"a\";\n", nil},
		{"snippet-with-error", "// @scope: recv\nset req.http.A = std.itoa(\"x\");\n", nil},
		{"snippet-syntax-error", "// @scope: recv\nset req.http.A = ;\n", nil},
		{"empty-file", "", nil},
		// a single surplus token in front of the end of a file, in the main file and in a module
		{"syntax-error-surplus-brace-at-eof", okSub + "}\n", nil},
		{"syntax-error-surplus-semicolon-at-eof", okSub + ";", nil},
		{"syntax-error-surplus-word-at-eof", okSub + "sub\n", nil},
		{"syntax-error-surplus-string-at-eof", okSub + "\"x\"\n", nil},
		{"syntax-error-surplus-token-at-eof-of-include", "include \"mod\";\n" + okSub, map[string]string{"mod.vcl": "backend from_mod {\n  .host = \"example.com\";\n}\n;\n"}},
		{"syntax-error-surplus-brace-at-eof-of-include", "include \"mod\";\n" + okSub, map[string]string{"mod.vcl": "sub from_mod {\n  set req.http.M = \"m\";\n}\n}"}},
		{"syntax-error-unclosed-subroutine-at-eof", "sub vcl_recv {\n  #FASTLY recv\n  set req.http.A = \"a\";\n", nil},
		{"syntax-error-lone-token-file", "}", nil},
		// literals at and beyond the range of their type, in the main file and in a module (-json prints the main file's tree)
		{"literal-float-max", litProg("FLOAT", "1e308"), nil},
		{"literal-float-overflow", litProg("FLOAT", "1e999"), nil},
		{"literal-float-negative-overflow", litProg("FLOAT", "-1.5e400"), nil},
		{"literal-float-hex-overflow", litProg("FLOAT", "0x1p2000"), nil},
		{"literal-float-underflow", litProg("FLOAT", "1e-400"), nil},
		{"literal-integer-max", litProg("INTEGER", "9223372036854775807"), nil},
		{"literal-integer-overflow", litProg("INTEGER", "9223372036854775808"), nil},
		{"literal-integer-hex-overflow", litProg("INTEGER", "0x10000000000000000"), nil},
		{"literal-rtime-overflow", litProg("RTIME", "99999999999999999999d"), nil},
		{"literal-float-overflow-in-include", "include \"mod\";\n" + okSub, map[string]string{"mod.vcl": "sub from_mod {\n  declare local var.v FLOAT;\n  set var.v = 1e999;\n  set req.http.V = var.v;\n}\n"}},
	}
}

func litProg(typ, lit string) string {
	return "sub vcl_recv {\n  #FASTLY recv\n  declare local var.v " + typ + ";\n  set var.v = " + lit + ";\n  set req.http.V = var.v;\n}\n"
}

var levels = []string{"ERROR", "WARNING", "INFO", "IGNORE"}

func refModules(m map[string]string) map[string]string {
	out := map[string]string{}
	for k, v := range m {
		out[strings.TrimSuffix(k, ".vcl")] = v
	}
	return out
}

func gen04(tier string, emit func(Case)) {
	for _, s := range situations() {
		emit(Case{Situation: s.name, Main: s.main, Modules: s.modules})
		// overrides: every rule that fires x every level; all pairs of two fired rules
		r := lintx.Lint(s.main, refModules(s.modules))
		if r.ParseErr != nil {
			// an override must not turn a syntax error into success either
			emit(Case{Situation: s.name, Main: s.main, Modules: s.modules, Overrides: map[string]string{"function/argument-type": "IGNORE"}})
			continue
		}
		seen := map[string]bool{}
		var rules []string
		for _, d := range r.Diags {
			if d.Rule != "" && !seen[d.Rule] {
				seen[d.Rule] = true
				rules = append(rules, d.Rule)
			}
		}
		sort.Strings(rules)
		for _, ru := range rules {
			for _, lv := range levels {
				emit(Case{Situation: s.name, Main: s.main, Modules: s.modules, Overrides: map[string]string{ru: lv}})
				emit(Case{Situation: s.name, Main: s.main, Modules: s.modules, Overrides: map[string]string{ru: strings.ToLower(lv)}})
			}
		}
		for i := range rules {
			for j := i + 1; j < len(rules); j++ {
				for _, a := range levels {
					for _, b := range levels {
						emit(Case{Situation: s.name, Main: s.main, Modules: s.modules, Overrides: map[string]string{rules[i]: a, rules[j]: b}})
					}
				}
			}
		}
		// an override for a rule that does not fire changes nothing
		emit(Case{Situation: s.name, Main: s.main, Modules: s.modules, Overrides: map[string]string{"acl/syntax": "ERROR"}})
	}
}

type verdict struct {
	exit                    int
	errors, warnings, infos int
	counted                 bool
}

func (v verdict) String() string {
	if !v.counted {
		return fmt.Sprintf("exit=%d (no counts)", v.exit)
	}
	return fmt.Sprintf("exit=%d errors=%d warnings=%d infos=%d", v.exit, v.errors, v.warnings, v.infos)
}

// reference computes the verdict through the library, not the runner.
func reference(c Case) verdict {
	// any file that does not parse -> failure
	if _, err := parser.New(lexer.NewFromString(c.Main)).ParseVCLOrSnippet(); err != nil {
		return verdict{exit: 1}
	}
	// independent of the linter's own include resolution: every module reachable through include statements
	// (found textually, followed transitively) is parsed directly; one that does not parse is a failure
	mods := refModules(c.Modules)
	seen := map[string]bool{}
	var visit func(src string) bool
	visit = func(src string) bool {
		for _, m := range includeRe.FindAllStringSubmatch(src, -1) {
			name := m[1]
			if seen[name] {
				continue
			}
			seen[name] = true
			body, ok := mods[name]
			if !ok {
				continue // a missing module is the linter's business below
			}
			if _, err := parser.New(lexer.NewFromString(body)).ParseVCLOrSnippet(); err != nil {
				return false
			}
			if !visit(body) {
				return false
			}
		}
		return true
	}
	if !visit(c.Main) {
		return verdict{exit: 1}
	}
	r := lintx.Lint(c.Main, mods)
	if r.Fatal != "" || r.ParseErr != nil {
		return verdict{exit: 1}
	}
	v := verdict{counted: true}
	for _, d := range r.Diags {
		sev := strings.ToUpper(d.Severity)
		if o, ok := c.Overrides[d.Rule]; ok {
			sev = strings.ToUpper(o)
		}
		switch sev {
		case "ERROR":
			v.errors++
		case "WARNING":
			v.warnings++
		case "INFO":
			v.infos++
		}
	}
	if v.errors > 0 {
		v.exit = 1
	}
	return v
}

var includeRe = regexp.MustCompile(`include\s+"([^"]+)"`)

var summaryRe = regexp.MustCompile(`(\d+) errors, \D*(\d+) warnings, \D*(\d+) recommendations`)

func falcoBin() string {
	if p := os.Getenv("VERIF_FALCO"); p != "" {
		return p
	}
	return "/var/tmp/falco"
}

func runCLI(dir string, args ...string) (verdict, string) {
	cmd := exec.Command(falcoBin(), append([]string{"lint"}, args...)...)
	cmd.Dir = dir
	cmd.Env = []string{"HOME=" + dir, "PATH=/usr/bin:/bin", "TZ=UTC", "NO_COLOR=1"}
	var stdout, stderr bytes.Buffer
	cmd.Stdout, cmd.Stderr = &stdout, &stderr
	err := cmd.Run()
	v := verdict{}
	if ee, ok := err.(*exec.ExitError); ok {
		v.exit = ee.ExitCode()
	} else if err != nil {
		v.exit = -1
	}
	if m := summaryRe.FindStringSubmatch(stderr.String() + stdout.String()); m != nil {
		fmt.Sscan(m[1], &v.errors)
		fmt.Sscan(m[2], &v.warnings)
		fmt.Sscan(m[3], &v.infos)
		v.counted = true
	}
	// the JSON document, when present, must agree with the summary line
	var doc struct {
		Errors, Warnings, Infos *int
	}
	if json.Unmarshal(stdout.Bytes(), &doc) == nil && doc.Errors != nil {
		if v.counted && (*doc.Errors != v.errors || *doc.Warnings != v.warnings || *doc.Infos != v.infos) {
			v.errors, v.warnings, v.infos = -1, -1, -1 // mismatch marker
		}
	}
	return v, stderr.String() + stdout.String()
}

func run(c Case) engine.Result {
	dir, err := os.MkdirTemp(engine.Scratch(), "c04-")
	if err != nil {
		panic(err)
	}
	defer os.RemoveAll(dir)
	os.WriteFile(filepath.Join(dir, "main.vcl"), []byte(c.Main), 0o644)
	for k, v := range c.Modules {
		os.WriteFile(filepath.Join(dir, k), []byte(v), 0o644)
	}
	if len(c.Overrides) > 0 {
		var b strings.Builder
		b.WriteString("linter:\n  rules:\n")
		ks := make([]string, 0, len(c.Overrides))
		for k := range c.Overrides {
			ks = append(ks, k)
		}
		sort.Strings(ks)
		for _, k := range ks {
			fmt.Fprintf(&b, "    %s: %s\n", k, c.Overrides[k])
		}
		os.WriteFile(filepath.Join(dir, ".falco.yml"), []byte(b.String()), 0o644)
	}
	want := reference(c)
	if strings.Contains(c.Situation, "syntax-error") {
		// by construction: the situation contains a file that is not in the grammar, whatever the parser under test says
		want = verdict{exit: 1}
	}
	res := engine.Result{NonTrivial: true, Outcome: want.String()}
	ovKind := "none"
	if len(c.Overrides) > 0 {
		var lv []string
		for _, v := range c.Overrides {
			lv = append(lv, strings.ToUpper(v))
		}
		sort.Strings(lv)
		ovKind = strings.Join(lv, "+")
	}
	var first *verdict
	var firstMode string
	for _, mode := range [][]string{{}, {"-json"}} {
		for _, verb := range [][]string{{}, {"-v"}, {"-vv"}} {
			args := append(append([]string{}, mode...), verb...)
			args = append(args, "main.vcl")
			got, out := runCLI(dir, args...)
			modeName := strings.TrimSpace(strings.Join(append(append([]string{"plain"}, mode...), verb...), " "))
			// (a) reference verdict
			bad := (got.exit != 0) != (want.exit != 0)
			if !bad && want.counted && got.counted && (got.errors != want.errors || got.warnings != want.warnings || got.infos != want.infos) {
				bad = true
			}
			if bad {
				res.Findings = append(res.Findings, engine.Finding{
					Class:  fmt.Sprintf("verdict|%s|%s|overrides=%s", c.Situation, strings.Join(mode, ""), ovKind),
					What:   fmt.Sprintf("situation %s, `falco lint %s`, overrides %v: expected %s, got %s", c.Situation, strings.Join(args, " "), c.Overrides, want, got),
					Detail: map[string]string{"main": c.Main, "output": trunc(out)},
				})
			}
			// (b) cross-mode differential
			if first == nil {
				g := got
				first, firstMode = &g, modeName
			} else if got.exit != first.exit || (got.counted && first.counted && (got.errors != first.errors || got.warnings != first.warnings || got.infos != first.infos)) {
				res.Findings = append(res.Findings, engine.Finding{
					Class:  fmt.Sprintf("mode-dependent|%s|overrides=%s", c.Situation, ovKind),
					What:   fmt.Sprintf("situation %s, overrides %v: `%s` gives %s but `%s` gives %s", c.Situation, c.Overrides, firstMode, *first, modeName, got),
					Detail: map[string]string{"main": c.Main},
				})
			}
		}
	}
	// -generated: the same verdict with subroutine/boilerplate-macro ignored on top of the configured overrides
	{
		cg := c
		cg.Overrides = map[string]string{}
		for k, v := range c.Overrides {
			cg.Overrides[k] = v
		}
		cg.Overrides["subroutine/boilerplate-macro"] = "IGNORE"
		wantG := reference(cg)
		for _, mode := range [][]string{{"-generated"}, {"-generated", "-json"}} {
			args := append(append([]string{}, mode...), "main.vcl")
			got, out := runCLI(dir, args...)
			bad := (got.exit != 0) != (wantG.exit != 0)
			if !bad && wantG.counted && got.counted && (got.errors != wantG.errors || got.warnings != wantG.warnings || got.infos != wantG.infos) {
				bad = true
			}
			if bad {
				res.Findings = append(res.Findings, engine.Finding{
					Class:  fmt.Sprintf("verdict|%s|%s|overrides=%s", c.Situation, strings.Join(mode, ""), ovKind),
					What:   fmt.Sprintf("situation %s, `falco lint %s`, overrides %v: expected %s, got %s", c.Situation, strings.Join(args, " "), c.Overrides, wantG, got),
					Detail: map[string]string{"main": c.Main, "output": trunc(out)},
				})
			}
		}
	}
	if len(res.Findings) > 0 {
		res.Outcome = "inconsistent"
		seen := map[string]bool{}
		var keep []engine.Finding
		for _, f := range res.Findings {
			if !seen[f.Class] {
				seen[f.Class] = true
				keep = append(keep, f)
			}
		}
		res.Findings = keep
	}
	return res
}

func trunc(s string) string {
	if len(s) > 1500 {
		return s[:1500]
	}
	return s
}

func init() {
	engine.Register(engine.Spec[Case]{
		ID:    "C04",
		Level: "exploration",
		Rule: "44 program situations (26 basic ones, 10 with out-of-range literals, 8 with a surplus token at the end of a file; the basic ones: clean; INFO / WARNING / ERROR only and combined; ERROR silenced by each ignore form; syntax error in main, in an included module at root and statement level, in an included module followed / preceded by a module that parses, in a nested include; missing include; include cycle; error / warning inside an included module; statement-only snippets with and without @scope, with a lint error, with a syntax error; empty file) x .falco.yml rule overrides (none; every rule that fires x {ERROR, WARNING, INFO, IGNORE} in both letter cases; all pairs of levels for two fired rules; an unrelated rule), each run through the real `falco lint` binary in a private directory under all 6 combinations {plain, -json} x {default, -v, -vv} and with -generated (plain and -json); oracles: (a) exit status and counts equal the verdict computed through the library (parser + linter + override map), (b) exit status and counts identical across the 6 combinations, (c) the -json document agrees with the summary line. non-trivial = every cell; distinct = distinct (program, overrides) Round 3: 10 situations with literals at and beyond the range of their type (FLOAT / INTEGER / RTIME, main file and module). Round 4: 8 situations with a single surplus token in front of the end of the main file or of a module, a file that is one token; situations named syntax-error-* have a verdict by construction (non-zero exit in every mode), whatever the parser under test answers.",
		Gen:  gen04,
		Key: func(c Case) string {
			ks := make([]string, 0, len(c.Overrides))
			for k, v := range c.Overrides {
				ks = append(ks, k+"="+v)
			}
			sort.Strings(ks)
			return c.Situation + "\x00" + strings.Join(ks, ",")
		},
		Run:     run,
		Workers: 16,
		Assumptions: []string{"the CLI is run with a minimal environment (HOME and cwd in a private scratch directory, TZ=UTC, NO_COLOR) so that no stray .falco.yml is found", "counts are read from the summary line on stderr and from the -json document on stdout"},
	})
}
