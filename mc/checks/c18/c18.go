// Package c18: concurrent requests and concurrent lint plugins are serialisable.
//
// Deciding method: stateless exploration of thread interleavings of the REAL code
// under a controlled cooperative scheduler (shim/vsched, injected with go build
// -overlay): every schedule with at most k preemptions (k per tier) of
//
//	sim    — 2..4 goroutines each sending one request into ServeHTTP of ONE interpreter
//	plugin — the goroutines customLint starts for a statement annotated with 2..4 plugins
//
// Scheduling points: every sync operation (Mutex, RWMutex, WaitGroup), goroutine
// spawn and end, every function entry and loop iteration of interpreter/... and
// linter (the fuel ticks), and the gap inside every read-modify-write statement
// on a field or package variable (x.f = append(x.f, ..), x.f++, x.f op= e).
// Oracles on every execution: (sim) the vector of per-request observations plus
// the observations of follow-up probe requests equals the vector of some
// one-at-a-time order on a fresh instance; (plugin) the diagnostics are exactly
// what the plugins returned; no deadlock, no panic, and no pair of conflicting
// accesses at a read-modify-write site unordered by happens-before.
package c18

import (
	"bufio"
	"encoding/json"
	"fmt"
	"io"
	"net/http"
	"net/http/httptest"
	"os"
	"os/exec"
	"path/filepath"
	"regexp"
	"sort"
	"strings"
	gosync "sync"
	"time"

	"github.com/ysugimoto/falco/v2/interpreter"
	"github.com/ysugimoto/falco/v2/zzverif/vsched"

	"verif/mc/engine"
	"verif/mc/lintx"
	"verif/mc/sched"
	"verif/mc/sim"
)

// Case is one scenario explored exhaustively within the preemption bound.
type Case struct {
	Kind     string   `json:"kind"` // sim | plugin
	Requests []string `json:"requests,omitempty"`
	Plugins  []string `json:"plugins,omitempty"` // "<name> <arg>"
	Bound    int      `json:"bound"`
	// Schedule, when set (replay files), restricts the run to this one choice sequence.
	Schedule []int `json:"schedule,omitempty"`
}

const simVCL = `
backend be1 { .host = "example.com"; .port = "80"; }
ratecounter rc1 { }
penaltybox pb1 { }
sub vcl_recv {
#FASTLY recv
  declare local var.n INTEGER;
  set req.http.X-Seen = req.http.X-Marker;
  set var.n = ratelimit.ratecounter_increment(rc1, "k", 1);
  log "recv " req.http.X-Marker " " req.url " restarts=" req.restarts;
  if (req.url ~ "^/pass") {
    return(pass);
  }
  if (req.url ~ "^/err") {
    error 601 "e";
  }
  if (req.url ~ "^/restart" && req.restarts == 0) {
    set req.http.X-Restarted = "1";
    restart;
  }
  if (req.url ~ "^/box") {
    ratelimit.penaltybox_add(pb1, "k", 10m);
  }
  return(lookup);
}
sub vcl_hit {
#FASTLY hit
  log "hit " req.http.X-Marker;
  return(deliver);
}
sub vcl_miss {
#FASTLY miss
  log "miss " req.http.X-Marker;
  return(fetch);
}
sub vcl_fetch {
#FASTLY fetch
  set beresp.ttl = 3600s;
  set beresp.http.X-Fetched-For = req.http.X-Marker;
  if (req.url ~ "^/esi") {
    esi;
    return(pass);
  }
  return(deliver);
}
sub vcl_error {
#FASTLY error
  set obj.http.X-Err-For = req.http.X-Marker;
  synthetic "error for " req.http.X-Marker;
  return(deliver);
}
sub vcl_deliver {
#FASTLY deliver
  set resp.http.X-Marker-Echo = req.http.X-Marker;
  set resp.http.X-Seen-Echo = req.http.X-Seen;
  set resp.http.X-Boxed = if(ratelimit.penaltybox_has(pb1, "k"), "1", "0");
  return(deliver);
}
sub vcl_log {
#FASTLY log
  log "log " req.http.X-Marker " " resp.status;
}
`

// request kinds
var reqKinds = []string{"/c1", "/c2", "/pass", "/err", "/restart", "/box"}

// esiRespond: the origin answers /esi with a body that includes a fragment (the delivery resolves it while the request is
// still being processed); every other path gets the stub's default answer
func esiRespond(r *http.Request) *http.Response {
	if !strings.HasPrefix(r.URL.Path, "/esi") {
		return nil
	}
	body := "head <esi:include src=\"/frag\" /><esi:remove>removed</esi:remove> tail"
	return &http.Response{
		StatusCode: 200, Status: "200 OK", Proto: "HTTP/1.1", ProtoMajor: 1, ProtoMinor: 1,
		Header:        http.Header{"Content-Type": {"text/html"}},
		Body:          io.NopCloser(strings.NewReader(body)),
		ContentLength: int64(len(body)),
		Request:       r,
	}
}

func serveOne(ip *interpreter.Interpreter, url, marker string) string {
	method := "GET"
	if strings.HasPrefix(url, "PURGE") {
		// a purge request: answered after vcl_recv, removes the object from the cache
		method, url = "FASTLYPURGE", strings.TrimPrefix(url, "PURGE")
	}
	o := sim.Observe(ip, method, "http://example.com"+url, [][2]string{{"X-Marker", marker}})
	return o.String()
}

// probes: sequential follow-up requests that expose the shared state (cache contents, counters, penalty box)
func probes(ip *interpreter.Interpreter) []string {
	var out []string
	for i, u := range []string{"/c1", "/c2", "/pass"} {
		out = append(out, serveOne(ip, u, fmt.Sprintf("probe%d", i)))
	}
	return out
}

func newInstance() *interpreter.Interpreter {
	ip, _ := sim.NewServer(simVCL)
	return ip
}

func permutations(n int) [][]int {
	var out [][]int
	var rec func(cur []int, used []bool)
	rec = func(cur []int, used []bool) {
		if len(cur) == n {
			out = append(out, append([]int{}, cur...))
			return
		}
		for i := 0; i < n; i++ {
			if !used[i] {
				used[i] = true
				rec(append(cur, i), used)
				used[i] = false
			}
		}
	}
	rec(nil, make([]bool, n))
	return out
}

// serialOutcomes: outcome vector of every one-at-a-time order on a fresh instance.
func serialOutcomes(reqs []string) map[string][]int {
	out := map[string][]int{}
	for _, perm := range permutations(len(reqs)) {
		ip := newInstance()
		obs := make([]string, len(reqs))
		for _, k := range perm {
			obs[k] = serveOne(ip, reqs[k], fmt.Sprintf("m%d", k))
		}
		v := strings.Join(append(obs, probes(ip)...), "\n")
		if _, ok := out[v]; !ok {
			out[v] = perm
		}
	}
	return out
}

type execOut struct {
	Vector string
	Trace  vsched.Trace
}

func runSim(reqs []string, prefix []int) execOut {
	ip := newInstance()
	obs := make([]string, len(reqs))
	var tail []string
	tr := vsched.Run(prefix, 0, func() {
		var wg vsched.WaitGroup
		for k := range reqs {
			k := k
			wg.Add(1)
			vsched.Spawn(func() {
				defer wg.Done()
				obs[k] = serveOne(ip, reqs[k], fmt.Sprintf("m%d", k))
			})
		}
		wg.Wait()
		tail = probes(ip)
	})
	return execOut{Vector: strings.Join(append(obs, tail...), "\n"), Trace: tr}
}

// --- plugins -----------------------------------------------------------------

// nestedPrefix marks a scenario where the plugins sit on an `if` statement whose body has a statement under
// `falco-ignore-next-line` carrying a plugin of its own (ignored in every run, by design)
const nestedPrefix = "nested:"

func pluginVCL(plugins []string) string {
	if len(plugins) > 0 && strings.HasPrefix(plugins[0], nestedPrefix) {
		var b strings.Builder
		b.WriteString("backend be1 { .host = \"example.com\"; .port = \"80\"; }\nsub vcl_recv {\n#FASTLY recv\n")
		for _, p := range plugins {
			b.WriteString("  // @plugin: " + strings.TrimPrefix(p, nestedPrefix) + "\n")
		}
		b.WriteString("  if (req.http.A) {\n    set req.http.Y = \"1\";\n    // falco-ignore-next-line\n    // @plugin: p4 1\n    set req.http.X = \"1\";\n    set req.http.Z = \"1\";\n  }\n  return(lookup);\n}\n")
		return b.String()
	}
	var b strings.Builder
	b.WriteString("backend be1 { .host = \"example.com\"; .port = \"80\"; }\nsub vcl_recv {\n#FASTLY recv\n")
	for _, p := range plugins {
		b.WriteString("  // @plugin: " + p + "\n")
	}
	b.WriteString("  set req.http.X = \"1\";\n  return(lookup);\n}\n")
	return b.String()
}

func expectedPluginDiags(plugins []string) []string {
	var out []string
	for _, p := range plugins {
		f := strings.Fields(strings.TrimPrefix(p, nestedPrefix))
		name, arg := f[0], "1"
		if len(f) > 1 {
			arg = f[1]
		}
		switch arg {
		case "fail":
			out = append(out, "failed:"+name)
		case "garbage":
			out = append(out, "garbage:"+name)
		case "missing":
			// no such executable: one "not found" diagnostic, the other plugins are unaffected
			out = append(out, "notfound:"+name)
		default:
			n := 0
			fmt.Sscan(arg, &n)
			for i := 0; i < n; i++ {
				out = append(out, fmt.Sprintf("%s-%d", name, i))
			}
		}
	}
	sort.Strings(out)
	return out
}

var (
	reFailed  = regexp.MustCompile(`"(p\d) failed`)
	reGarbage = regexp.MustCompile(`falco-(p\d) did not respond correct message`)
	reDiag    = regexp.MustCompile(`^p\d-\d+$`)
	reMissing = regexp.MustCompile(`Custom linter command "falco-(p\d)" not found`)
)

func pluginDiags(r lintx.Result) []string {
	var out []string
	for _, d := range r.Diags {
		m := d.Message
		if x := reGarbage.FindStringSubmatch(m); x != nil {
			out = append(out, "garbage:"+x[1])
		} else if x := reMissing.FindStringSubmatch(m); x != nil {
			out = append(out, "notfound:"+x[1])
		} else if x := reFailed.FindStringSubmatch(m); x != nil {
			out = append(out, "failed:"+x[1])
		} else if reDiag.MatchString(m) {
			out = append(out, m)
		} else if strings.Contains(m, "Custom linter") {
			out = append(out, "other:"+m)
		}
	}
	sort.Strings(out)
	return out
}

func runPlugin(plugins []string, prefix []int) (execOut, lintx.Result) {
	src := pluginVCL(plugins)
	var res lintx.Result
	tr := vsched.Run(prefix, 0, func() {
		res = lintx.Lint(src, nil)
	})
	return execOut{Vector: strings.Join(pluginDiags(res), ","), Trace: tr}, res
}

// ---------------------------------------------------------------------------

func classOfRace(r vsched.Race) string {
	site := r.Site
	// file:line expr -> file expr (line numbers shift with unrelated edits)
	if i := strings.Index(site, ":"); i > 0 {
		if j := strings.Index(site[i:], " "); j > 0 {
			site = site[:i] + site[i+j:]
		}
	}
	return "race|" + site
}

func run(c Case) engine.Result {
	if strings.HasPrefix(c.Kind, "race-") {
		return runRaceAux(c)
	}
	res := engine.Result{NonTrivial: true}
	var allowed map[string][]int
	var want string
	if c.Kind == "sim" {
		allowed = serialOutcomes(c.Requests)
	} else {
		want = strings.Join(expectedPluginDiags(c.Plugins), ",")
	}
	outcomes := map[string]int{}
	seen := map[string]bool{}
	stuck := false
	add := func(class, what string, prefix []int, tr vsched.Trace) {
		if seen[class] {
			return
		}
		seen[class] = true
		res.Findings = append(res.Findings, engine.Finding{Class: class, What: what, Detail: map[string]any{"schedule": tr.Choices, "described": sched.Describe(tr), "preemptions": tr.Preemptions}})
	}
	visit := func(prefix []int, x execOut) bool {
		tr := x.Trace
		outcomes[x.Vector]++
		if tr.Stuck {
			stuck = true
			return false
		}
		if tr.Diverged != "" {
			add("harness|replay-divergence", "replaying a schedule prefix diverged: "+tr.Diverged, prefix, tr)
			return false
		}
		if tr.Deadlock {
			add(c.Kind+"|deadlock", "deadlock: no enabled thread while some are blocked; schedule "+sched.Describe(tr), prefix, tr)
		}
		if tr.Panic != "" {
			add(c.Kind+"|panic", "panic in a managed thread: "+tr.Panic, prefix, tr)
		}
		for _, r := range tr.Races {
			add(classOfRace(r), fmt.Sprintf("data race (%s) at %s between threads %d and %d: no happens-before between the accesses; schedule %s", r.Kind, r.Site, r.Thread, r.Other, sched.Describe(tr)), prefix, tr)
		}
		if c.Kind == "sim" {
			if _, ok := allowed[x.Vector]; !ok && !tr.Deadlock {
				add("sim|not-serialisable", fmt.Sprintf("requests %v: the responses and final shared state equal no one-at-a-time order (%d serial outcomes); schedule %s; observed:\n%s", c.Requests, len(allowed), sched.Describe(tr), x.Vector), prefix, tr)
			}
		} else if x.Vector != want && !tr.Deadlock {
			add("plugin|lost-diagnostic", fmt.Sprintf("plugins %v returned [%s] but the linter reports [%s]; schedule %s", c.Plugins, want, x.Vector, sched.Describe(tr)), prefix, tr)
		}
		// a scenario is explored until its first violating execution (all findings of that execution are kept)
		return len(res.Findings) == 0
	}
	if os.Getenv("VERIF_C18_DEBUG") != "" {
		var x execOut
		if c.Kind == "sim" {
			x = runSim(c.Requests, c.Schedule)
		} else {
			x, _ = runPlugin(c.Plugins, c.Schedule)
		}
		fmt.Printf("DEBUG points=%d all=%d threads=%d deadlock=%v\n", len(x.Trace.Points), x.Trace.AllPoints, x.Trace.Threads, x.Trace.Deadlock)
		for i, p := range x.Trace.Points {
			fmt.Printf("  %d %s running=%d enabled=%v chosen=%d\n", i, p.Kind, p.Running, p.Enabled, p.Chosen)
		}
		fmt.Println(x.Vector)
	}
	if c.Schedule != nil {
		// replay of one stored schedule
		var x execOut
		if c.Kind == "sim" {
			x = runSim(c.Requests, c.Schedule)
		} else {
			x, _ = runPlugin(c.Plugins, c.Schedule)
		}
		visit(c.Schedule, x)
		return res
	}
	var last execOut
	ex := &sched.Explorer{Bound: c.Bound, MaxExec: maxExec(),
		Run: func(prefix []int) vsched.Trace {
			if c.Kind == "sim" {
				last = runSim(c.Requests, prefix)
			} else {
				last, _ = runPlugin(c.Plugins, prefix)
			}
			return last.Trace
		},
		Visit: func(prefix []int, tr vsched.Trace) bool { return visit(prefix, last) },
	}
	st := ex.Explore()
	// determinism: the default schedule twice gives the same observation
	if len(res.Findings) == 0 && !stuck {
		var a, b execOut
		if c.Kind == "sim" {
			a, b = runSim(c.Requests, nil), runSim(c.Requests, nil)
		} else {
			a, _ = runPlugin(c.Plugins, nil)
			b, _ = runPlugin(c.Plugins, nil)
		}
		if a.Vector != b.Vector || fmt.Sprint(a.Trace.Choices) != fmt.Sprint(b.Trace.Choices) {
			res.Findings = append(res.Findings, engine.Finding{Class: "harness|nondeterministic-replay", What: "the same schedule run twice gave different observations: uncontrolled nondeterminism in the harness"})
		}
	}
	res.Steps = st.Executions
	res.Outcome = fmt.Sprintf("%s n=%d outcomes=%d", c.Kind, len(c.Requests)+len(c.Plugins), len(outcomes))
	if stuck {
		st.Capped = true
		res.Outcome = c.Kind + " stuck"
	}
	addStats(c, st, len(outcomes), len(allowed))
	return res
}

// maxExec caps the executions of one scenario (a capped scenario is reported as not exhaustive, never as held)
func maxExec() int64 {
	if os.Getenv("VERIF_TIER") == "thorough" || curTier == "thorough" {
		// (was 400000: a worker then grows to 6-7 GB and sixteen of them met the kernel's out-of-memory killer)
		return 60000
	}
	return 6000
}

var curTier string

// per-worker statistics, written next to the worker output and merged by Finish
type stat struct {
	Scenario   string `json:"scenario"`
	Bound      int    `json:"bound"`
	Executions int64  `json:"executions"`
	Points     int64  `json:"choice_points"`
	AllPoints  int64  `json:"scheduling_points"`
	Threads    int    `json:"threads"`
	Outcomes   int    `json:"distinct_outcomes"`
	Serial     int    `json:"serial_outcomes"`
	Capped     bool   `json:"capped,omitempty"`
}

var stats []stat

func addStats(c Case, st sched.Stats, outcomes, serial int) {
	stats = append(stats, stat{Scenario: strings.Join(append(append([]string{c.Kind}, c.Requests...), c.Plugins...), " "), Bound: c.Bound, Executions: st.Executions, Points: st.Points, AllPoints: st.AllPoints, Threads: st.MaxThreads, Outcomes: outcomes, Serial: serial, Capped: st.Capped})
	if dir := os.Getenv("VERIF_C18_STATS"); dir != "" {
		f, err := os.OpenFile(filepath.Join(dir, fmt.Sprintf("stats-%d.jsonl", os.Getpid())), os.O_CREATE|os.O_APPEND|os.O_WRONLY, 0o644)
		if err == nil {
			b, _ := json.Marshal(stats[len(stats)-1])
			f.Write(append(b, '\n'))
			f.Close()
		}
	}
}

// ---------------------------------------------------------------------------
// auxiliary pass: the same scenario bodies free-running under Go's race detector
// (a separate binary built with -race, no controlled scheduler: its hand-offs would
// be happens-before edges that blind the detector).

// raceMain is `vf c18race <kind> <items...>`: runs the scenario 'reps' times with real goroutines.
func raceMain(args []string) int {
	sim.InstallStub().Respond = esiRespond
	if d := os.Getenv("VERIF_PLUGIN_DIR"); d != "" {
		os.Setenv("PATH", d+":"+os.Getenv("PATH"))
	}
	kind, items := args[0], args[1:]
	const reps = 15
	for r := 0; r < reps; r++ {
		if kind == "sim" {
			ip := newInstance()
			srv := httptest.NewServer(ip)
			var wg gosync.WaitGroup
			for k := range items {
				wg.Add(1)
				go func(k int) {
					defer wg.Done()
					method, path := "GET", items[k]
					if strings.HasPrefix(path, "PURGE") {
						method, path = "FASTLYPURGE", strings.TrimPrefix(path, "PURGE")
					}
					req, _ := http.NewRequest(method, srv.URL+path, nil)
					req.Header.Set("X-Marker", fmt.Sprintf("m%d", k))
					tr := &http.Transport{}
					resp, err := tr.RoundTrip(req)
					if err == nil {
						io.Copy(io.Discard, resp.Body)
						resp.Body.Close()
					}
					tr.CloseIdleConnections()
				}(k)
			}
			wg.Wait()
			srv.Close()
		} else {
			lintx.Lint(pluginVCL(items), nil)
		}
	}
	return 0
}

var reRaceFrame = regexp.MustCompile(`(?m)^  (github\.com/ysugimoto/falco/v2/\S+)\(\)`)

func runRaceAux(c Case) engine.Result {
	res := engine.Result{NonTrivial: true, Outcome: "race-aux"}
	bin := os.Getenv("VERIF_VF_RACE")
	if bin == "" {
		res.Skipped = true
		return res
	}
	dir, _ := os.MkdirTemp(engine.Scratch(), "c18race-")
	defer os.RemoveAll(dir)
	items := c.Requests
	if c.Kind == "race-plugin" {
		items = c.Plugins
	}
	cmd := exec.Command(bin, append([]string{"c18race", strings.TrimPrefix(c.Kind, "race-")}, items...)...)
	cmd.Env = append(os.Environ(), "GORACE=halt_on_error=0 exitcode=0 log_path="+filepath.Join(dir, "race"))
	out, err := cmd.CombinedOutput()
	if err != nil {
		res.Findings = append(res.Findings, engine.Finding{Class: "race-aux|run-failed", What: "the -race harness run failed: " + err.Error() + ": " + trunc(string(out), 500)})
		return res
	}
	logs, _ := filepath.Glob(filepath.Join(dir, "race*"))
	seen := map[string]bool{}
	for _, fn := range logs {
		b, _ := os.ReadFile(fn)
		for _, blk := range strings.Split(string(b), "WARNING: DATA RACE")[1:] {
			fr := reRaceFrame.FindStringSubmatch(blk)
			site := "unknown"
			if fr != nil {
				site = strings.TrimPrefix(fr[1], "github.com/ysugimoto/falco/v2/")
			}
			if seen[site] {
				continue
			}
			seen[site] = true
			res.Findings = append(res.Findings, engine.Finding{Class: "race-detector|" + site, What: "Go's race detector reports a data race in a free-running run of " + strings.Join(items, " ") + ": first falco frame " + site, Detail: trunc(blk, 3000)})
		}
	}
	return res
}

func trunc(s string, n int) string {
	if len(s) > n {
		return s[:n] + "..."
	}
	return s
}

// multisets of size n over kinds
func multisets(kinds []string, n int) [][]string {
	var out [][]string
	var rec func(start int, cur []string)
	rec = func(start int, cur []string) {
		if len(cur) == n {
			out = append(out, append([]string{}, cur...))
			return
		}
		for i := start; i < len(kinds); i++ {
			rec(i, append(cur, kinds[i]))
		}
	}
	rec(0, nil)
	return out
}

func gen18(tier string, emit func(Case)) {
	thorough := tier == "thorough"
	// sim: every multiset of n request kinds, explored with at most b preemptions
	//   quick:    n=2 b=2, n=3 b=1
	//   thorough: n=2 b=3, n=3 b=2, n=4 b=1
	plan := [][2]int{{2, 2}, {3, 1}}
	if thorough {
		plan = [][2]int{{2, 3}, {3, 2}, {4, 1}}
	}
	for _, nb := range plan {
		for _, ms := range multisets(reqKinds, nb[0]) {
			emit(Case{Kind: "sim", Requests: ms, Bound: nb[1]})
		}
	}
	// a response whose body carries an ESI include (resolved during delivery), next to each other request kind
	for _, other := range append([]string{"/esi"}, reqKinds...) {
		emit(Case{Kind: "sim", Requests: []string{"/esi", other}, Bound: plan[0][1]})
	}
	emit(Case{Kind: "sim", Requests: []string{"/esi", "/c1", "/pass"}, Bound: plan[1][1]})
	// a purge request (method FASTLYPURGE) next to each other request kind, and between two requests for the purged object
	for _, other := range append([]string{"PURGE/c1"}, reqKinds...) {
		emit(Case{Kind: "sim", Requests: []string{"PURGE/c1", other}, Bound: plan[0][1]})
	}
	emit(Case{Kind: "sim", Requests: []string{"/c1", "PURGE/c1", "/c1"}, Bound: plan[1][1]})
	emit(Case{Kind: "race-sim", Requests: []string{"/c1", "PURGE/c1", "/c1", "PURGE/c2", "/c2", "/pass"}})
	emit(Case{Kind: "race-sim", Requests: []string{"/esi", "/esi", "/c1", "/pass"}})
	// auxiliary free-running -race pass over the same scenario bodies
	for _, ms := range multisets(reqKinds, 3) {
		emit(Case{Kind: "race-sim", Requests: ms})
	}
	emit(Case{Kind: "race-sim", Requests: []string{"/c1", "/c1", "/c2", "/pass", "/err", "/restart", "/box", "/c1", "/c2", "/pass", "/err", "/restart", "/box", "/c1", "/c2", "/box"}})
	for _, pl := range [][]string{{"p1 2", "p2 2"}, {"p1 2", "p2 fail", "p3 garbage"}, {"p1 2", "p2 2", "p3 2", "p4 2"}} {
		emit(Case{Kind: "race-plugin", Plugins: pl})
	}
	// plugins: 2..4 plugins on one statement, each answering 0/1/2 diagnostics, failing, or answering garbage
	//   quick:    n=2 (all 25 combinations) b=3, n=3 (answers 1/2/fail) b=1, n=4 (answers 1/2) b=1
	//   thorough: n=2 unbounded, n=3 (all 125) b=3, n=4 (answers 1/2/fail) b=2
	args := []string{"1", "2", "0", "fail", "garbage"}
	names := []string{"p1", "p2", "p3", "p4"}
	type pp struct {
		n, bound int
		args     []string
	}
	pplan := []pp{{2, 3, args}, {3, 1, []string{"1", "2", "fail"}}, {4, 1, []string{"1", "2"}}}
	if thorough {
		pplan = []pp{{2, -1, args}, {3, 3, args}, {4, 2, []string{"1", "2", "fail"}}}
	}
	// plugins on a compound statement with an ignored nested statement
	for _, a := range []string{"1", "2"} {
		for _, b := range []string{"1", "fail"} {
			emit(Case{Kind: "plugin", Plugins: []string{nestedPrefix + "p1 " + a, nestedPrefix + "p2 " + b}, Bound: pplan[0].bound})
		}
	}
	emit(Case{Kind: "plugin", Plugins: []string{nestedPrefix + "p1 2", nestedPrefix + "p2 2", nestedPrefix + "p3 1"}, Bound: pplan[1].bound})
	emit(Case{Kind: "race-plugin", Plugins: []string{nestedPrefix + "p1 2", nestedPrefix + "p2 2"}})
	// a plugin that is not installed (p9), first, in the middle and last
	emit(Case{Kind: "plugin", Plugins: []string{"p9 missing", "p2 2"}, Bound: pplan[0].bound})
	emit(Case{Kind: "plugin", Plugins: []string{"p1 1", "p9 missing"}, Bound: pplan[0].bound})
	emit(Case{Kind: "plugin", Plugins: []string{"p1 2", "p9 missing", "p3 1"}, Bound: pplan[1].bound})
	emit(Case{Kind: "race-plugin", Plugins: []string{"p1 2", "p9 missing", "p3 1"}})
	for _, p := range pplan {
		var rec func(i int, cur []string)
		rec = func(i int, cur []string) {
			if i == p.n {
				emit(Case{Kind: "plugin", Plugins: append([]string{}, cur...), Bound: p.bound})
				return
			}
			for _, a := range p.args {
				rec(i+1, append(cur, names[i]+" "+a))
			}
		}
		rec(0, nil)
	}
}

func init() {
	engine.RegisterCommand("c18race", raceMain)
	engine.Register(engine.Spec[Case]{
		ID:    "C18",
		Level: "model_checking",
		Rule: "each case is one scenario whose schedules are explored exhaustively within the preemption bound by the controlled scheduler on the real code: sim = every multiset of 2..3 (thorough: 4) request kinds {cacheable /c1, /c2, pass, error, restart, penalty-box} with distinct markers against one Interpreter, followed by 3 sequential probe requests; plus /esi (a response whose body carries an ESI include, resolved during delivery) and a FASTLYPURGE request next to each other kind; plugin = 2..4 plugins on one statement, each answering 0/1/2 diagnostics, failing or answering garbage, one of them possibly not installed. evaluations = scenarios; steps = executions (schedules) run",
		Gen:  gen18,
		// a worker starts no further scenario after this long (the ones left are reported as a cap, exhaustive=false):
		// on a loaded machine the thorough tier would otherwise run for hours
		SoftDeadline: map[string]time.Duration{"quick": 15 * time.Minute, "thorough": 25 * time.Minute},
		Key: func(c Case) string {
			return c.Kind + "\x00" + strings.Join(c.Requests, ",") + "\x00" + strings.Join(c.Plugins, ",") + fmt.Sprint(c.Bound, c.Schedule)
		},
		Run: func(c Case) engine.Result { return engine.SafeRun(func() engine.Result { return run(c) }) },
		Init: func(tier string) {
			curTier = tier
			sim.InstallStub().Respond = esiRespond
			if d := os.Getenv("VERIF_PLUGIN_DIR"); d != "" {
				os.Setenv("PATH", d+":"+os.Getenv("PATH"))
			}
		},
		Prepare: func(tier string, rep *engine.Report) {
			d := filepath.Join(engine.Scratch(), "c18-stats")
			os.RemoveAll(d)
			os.MkdirAll(d, 0o755)
			os.Setenv("VERIF_C18_STATS", d)
		},
		Finish: func(rep *engine.Report) {
			files, _ := filepath.Glob(filepath.Join(os.Getenv("VERIF_C18_STATS"), "stats-*.jsonl"))
			var all []stat
			for _, fn := range files {
				f, err := os.Open(fn)
				if err != nil {
					continue
				}
				sc := bufio.NewScanner(f)
				for sc.Scan() {
					var s stat
					if json.Unmarshal(sc.Bytes(), &s) == nil {
						all = append(all, s)
					}
				}
				f.Close()
			}
			sort.Slice(all, func(i, j int) bool { return all[i].Scenario < all[j].Scenario })
			var ex, cp, sp int64
			maxT, multi := 0, 0
			for _, s := range all {
				ex += s.Executions
				cp += s.Points
				sp += s.AllPoints
				if s.Threads > maxT {
					maxT = s.Threads
				}
				if s.Outcomes > 1 {
					multi++
				}
				if s.Capped {
					rep.Cap(fmt.Sprintf("scenario %q was not explored completely (execution cap %d reached, or an execution blocked in an operation the scheduler does not own - channel, condition variable, I/O - and was abandoned)", s.Scenario, maxExec()))
				}
			}
			byCost := append([]stat{}, all...)
			sort.Slice(byCost, func(i, j int) bool { return byCost[i].Executions > byCost[j].Executions })
			if len(byCost) > 10 {
				byCost = byCost[:10]
			}
			rep.Extra["largest_scenarios"] = byCost
			rep.Extra["schedules_explored"] = ex
			rep.Extra["choice_points"] = cp
			rep.Extra["scheduling_points_reached"] = sp
			rep.Extra["max_threads"] = maxT
			rep.Extra["scenarios"] = len(all)
			rep.Extra["scenarios_with_more_than_one_outcome"] = multi
			if len(all) > 60 {
				rep.Extra["scenario_stats_sample"] = append(append([]stat{}, all[:30]...), all[len(all)-30:]...)
			} else {
				rep.Extra["scenario_stats"] = all
			}
			rep.Extra["model_validation"] = "no separate model: every explored schedule is an execution of the real ServeHTTP / customLint code under the controlled scheduler; the serial reference is the same code run one request at a time on a fresh instance"
		},
		Assumptions: []string{
			"interleavings are explored at the granularity of scheduling points: sync operations, goroutine spawn/end, function entries and loop iterations of interpreter/... and linter, and the read/write gap of read-modify-write statements on fields and package variables; code between two points runs atomically",
			"sequential consistency is assumed (no weak-memory reorderings)",
			"race detection is by vector clocks at read-modify-write sites only; other unsynchronised accesses are caught through their effect on the responses and by the auxiliary free-running -race pass (bin/c18race)",
			"backend requests are answered by an in-process stub transport; plugins are stub executables built from mc/cmd/plugstub",
			"goroutines not started through the instrumented `go` statements (os/exec internals) never run instrumented code",
		},
	})
}
