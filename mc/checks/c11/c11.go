// Package c11: linting is total and deterministic.
package c11

import (
	"fmt"
	"sort"
	"strings"

	"github.com/ysugimoto/falco/v2/zzverif/fuel"
	"github.com/ysugimoto/falco/v2/zzverif/vmap"

	"verif/mc/engine"
	"verif/mc/gen"
	"verif/mc/lintx"
)

// Case kinds: total (one program, maybe with modules), maporder (program explored
// over map iteration orders), permute (subroutine declaration order).
type Case struct {
	Kind    string            `json:"kind"`
	Main    string            `json:"main"`
	Modules map[string]string `json:"modules,omitempty"`
	Label   string            `json:"label"`
	Perm    []int             `json:"perm,omitempty"` // permute: order of the declarations
	Decls   []string          `json:"decls,omitempty"`
}

// ---------------------------------------------------------------------------
// generators

var atomKinds = []func() *gen.Node{
	func() *gen.Node { return gen.Ident("req.http.Z") },
	func() *gen.Node { return gen.Str("z") },
	func() *gen.Node { return gen.Int(9) },
	func() *gen.Node { return gen.Float(9.5) },
	func() *gen.Node { return gen.RTime("9s") },
	func() *gen.Node { return gen.Bool(true) },
	func() *gen.Node { return gen.Ident("undefined.thing") },
	func() *gen.Node { return gen.Call("nosuchfn", gen.Int(1)) },
	func() *gen.Node { return gen.Ident("client.ip") },
	func() *gen.Node { return gen.Ident("now") },
}

func isAtom(n *gen.Node) bool {
	switch n.Kind {
	case "Ident", "String", "Integer", "Float", "RTime", "Boolean":
		return true
	}
	return false
}

// mutants replaces each expression atom by each other atom kind, one site at a time.
func mutants(root *gen.Node, visit func(*gen.Node)) {
	var sites []*gen.Node
	root.Walk(func(n *gen.Node) {
		switch n.Kind {
		case "SetStatement", "AddStatement", "LogStatement", "IfStatement", "ErrorStatement", "ReturnStatement", "SyntheticStatement",
			"InfixExpression", "PrefixExpression", "FunctionCallExpression", "IfExpression", "GroupedExpression", "DeclareStatement", "SwitchControl", "CallStatement", "FunctionCallStatement":
			for _, f := range n.F {
				if c, ok := f.Val.(*gen.Node); ok && c != nil && isAtom(c) && f.Name != "Ident" && f.Name != "Name" && f.Name != "ValueType" && f.Name != "Function" && f.Name != "Subroutine" {
					sites = append(sites, c)
				}
				if l, ok := f.Val.([]*gen.Node); ok && f.Name == "Arguments" {
					for _, c := range l {
						if isAtom(c) {
							sites = append(sites, c)
						}
					}
				}
			}
		}
	})
	for _, s := range sites {
		saved := *s
		for _, mk := range atomKinds {
			r := mk()
			if r.Kind == saved.Kind && fmt.Sprint(r.F) == fmt.Sprint(saved.F) {
				continue
			}
			*s = *r
			visit(root)
		}
		*s = saved
	}
}

func includeGraphs(emit func(Case)) {
	// modules main, a, b; each file includes any subset of {a, b, itself, missing},
	// at root level, inside a subroutine, or inside an if block of a subroutine / of a statement module (one placement per graph)
	targets := func(self string) []string { return []string{"a", "b", self, "missing"} }
	file := func(self string, mask int, place int, tag string) string {
		var incs []string
		for i, t := range targets(self) {
			if mask&(1<<i) != 0 {
				incs = append(incs, fmt.Sprintf("include \"%s\";", t))
			}
		}
		var b strings.Builder
		if place > 0 {
			body := strings.Join(incs, "\n  ")
			if place == 2 && len(incs) > 0 {
				body = "if (req.http.N) {\n    " + strings.Join(incs, "\n    ") + "\n  } else {\n    set req.http.E = \"1\";\n  }"
			}
			if self == "main" {
				fmt.Fprintf(&b, "sub vcl_recv {\n  #FASTLY recv\n  %s\n  set req.http.%s = \"1\";\n}\n", body, tag)
			} else {
				// a module included inside a subroutine consists of statements
				fmt.Fprintf(&b, "%s\nset req.http.%s = \"1\";\n", body, tag)
			}
		} else {
			fmt.Fprintf(&b, "%s\n", strings.Join(incs, "\n"))
			if self == "main" {
				fmt.Fprintf(&b, "sub vcl_recv {\n  #FASTLY recv\n  set req.http.%s = \"1\";\n}\n", tag)
			} else {
				fmt.Fprintf(&b, "sub sub_%s {\n  set req.http.%s = \"1\";\n}\n", self, tag)
			}
		}
		return b.String()
	}
	for place := 0; place <= 2; place++ {
		for mm := 0; mm < 16; mm++ {
			for ma := 0; ma < 16; ma++ {
				for mb := 0; mb < 16; mb++ {
					mods := map[string]string{
						"a": file("a", ma, place, "A"),
						"b": file("b", mb, place, "B"),
					}
					// "main" including itself resolves the module name "main"
					main := file("main", mm, place, "M")
					mods["main"] = main
					emit(Case{Kind: "total", Main: main, Modules: mods, Label: fmt.Sprintf("include-graph place=%d main=%04b a=%04b b=%04b", place, mm, ma, mb)})
				}
			}
		}
	}
}

// entity programs: up to 3 entities per linter map, mixed used / unused
func entityPrograms() []string {
	var out []string
	decl := map[string]func(i int) string{
		"table":       func(i int) string { return fmt.Sprintf("table t%d { \"k\": \"v\" }", i) },
		"acl":         func(i int) string { return fmt.Sprintf("acl a%d { \"10.0.0.%d\"; }", i, i) },
		"backend":     func(i int) string { return fmt.Sprintf("backend b%d { .host = \"h%d\"; }", i, i) },
		"director":    func(i int) string { return fmt.Sprintf("backend db%d { .host = \"d%d\"; }\ndirector d%d random { { .backend = db%d; .weight = 1; } }", i, i, i, i) },
		"sub":         func(i int) string { return fmt.Sprintf("sub s%d { set req.http.S%d = \"1\"; }", i, i) },
		"penaltybox":  func(i int) string { return fmt.Sprintf("penaltybox p%d {}", i) },
		"ratecounter": func(i int) string { return fmt.Sprintf("ratecounter r%d {}", i) },
	}
	kinds := []string{"table", "acl", "backend", "director", "sub", "penaltybox", "ratecounter"}
	for _, k := range kinds {
		for n := 2; n <= 3; n++ {
			var ds []string
			for i := 1; i <= n; i++ {
				ds = append(ds, decl[k](i))
			}
			out = append(out, strings.Join(ds, "\n")+"\nsub vcl_recv {\n  #FASTLY recv\n  set req.http.X = \"1\";\n}\n")
		}
	}
	// everything at once, two of each
	var all []string
	for _, k := range kinds {
		all = append(all, decl[k](1), decl[k](2))
	}
	out = append(out, strings.Join(all, "\n")+"\nsub vcl_recv {\n  #FASTLY recv\n  set req.http.X = table.lookup(t1, \"k\");\n  call s1;\n}\n")
	// gotos, duplicate declarations, call graphs with cycles and mixed explicit / inferred scopes
	out = append(out,
		"sub vcl_recv {\n  #FASTLY recv\n  goto l1;\n  goto l2;\n  l1:\n  l2:\n  l3:\n}\n",
		"table t1 { \"k\": \"v\" }\ntable t1 { \"k\": \"w\" }\nacl a1 { \"10.0.0.1\"; }\nacl a1 { \"10.0.0.2\"; }\nsub s1 { esi; }\nsub s1 { esi; }\nsub vcl_recv {\n  #FASTLY recv\n  call s1;\n}\n",
		"sub a { call b; }\nsub b { call c; set resp.http.X = \"1\"; }\nsub c { call a; }\nsub vcl_recv {\n  #FASTLY recv\n  call a;\n}\nsub vcl_deliver {\n  #FASTLY deliver\n  call b;\n}\n",
		"// @scope: recv,deliver\nsub a { call b; }\nsub b { set req.http.X = \"1\"; call d; }\n// @scope: fetch\nsub d { set beresp.ttl = 1s; }\nsub e { call e; }\nsub vcl_recv {\n  #FASTLY recv\n  call a;\n  call e;\n}\n",
		"sub fa(STRING var.x) STRING { return fb(var.x); }\nsub fb(STRING var.y) STRING { return var.y \"b\"; }\nsub fc() STRING { return fc(); }\nsub vcl_recv {\n  #FASTLY recv\n  set req.http.X = fa(\"x\") fc();\n}\n",
	)
	// subroutines whose scope is the union of several callers' scopes, using variables / statements that several of those scopes lack
	out = append(out,
		"sub shared { set req.http.S = beresp.http.Server; set req.http.T = obj.ttl; }\nsub vcl_recv {\n  #FASTLY recv\n  call shared;\n}\nsub vcl_deliver {\n  #FASTLY deliver\n  call shared;\n}\nsub vcl_log {\n  #FASTLY log\n  call shared;\n}\n",
		"sub shared { set resp.http.S = \"1\"; esi; set bereq.http.B = client.ip; }\nsub vcl_recv {\n  #FASTLY recv\n  call shared;\n}\nsub vcl_hit {\n  #FASTLY hit\n  call shared;\n}\nsub vcl_miss {\n  #FASTLY miss\n  call shared;\n}\nsub vcl_pass {\n  #FASTLY pass\n  call shared;\n}\nsub vcl_fetch {\n  #FASTLY fetch\n  call shared;\n}\nsub vcl_error {\n  #FASTLY error\n  call shared;\n}\n",
		"// @scope: recv, hash, deliver, log\nsub shared { set beresp.ttl = 1s; set req.http.H = req.hash; synthetic \"x\"; }\nsub vcl_recv {\n  #FASTLY recv\n  call shared;\n}\n",
	)
	return out
}

// regexPrograms: regular expression literals that end inside a group, class, quantifier or escape, in every place a pattern is
// looked at (if / else if conditions count capture groups; regsub arguments and BOOL assignments do not)
func regexPrograms() []string {
	pats := []string{"(?", "(", "(?:", "(?P<", "(?P<n", "(?P<n>", "(?<", "(?<n>a", "[", "[a", "[^", `\`, `a\`, `\\`, "a{", "a{1", "a{1,", "(?i", "(?i)", "(a)(?", "(a)(", "(?#", "(?#c)", "*", "+", "?", ")", "a)", "a|", "(?=", "(?!", "(?<=", "(?<!", "(?>", `\Q`, "(?P=", "", "(a(b(c", "(?'n'a)", "(?|a)", "(?R)", "(?1)", `\g{`, `\k<`, "(?-", "(?^", "(?i:", "(?i-s)", "((?", "(?:(?", "a(?"}
	ctxs := []string{
		"if (req.url ~ \"%s\") { esi; }",
		"if (req.url !~ \"%s\") { esi; }",
		"if (req.http.A) { esi; } else if (req.url ~ \"%s\") { esi; }",
		"if (req.http.A == \"1\" && req.url ~ \"%s\" && req.http.B ~ \"(b)\") { set req.http.G = re.group.1; }",
		"set req.http.A = if(req.url ~ \"%s\", \"a\", \"b\");",
		"set req.http.A = regsub(req.url, \"%s\", \"x\");",
		"set req.http.A = regsuball(req.url, \"%s\", \"\\1\");",
		"declare local var.b BOOL;\n  set var.b = (req.url ~ \"%s\");",
	}
	var out []string
	for _, cx := range ctxs {
		for _, p := range pats {
			out = append(out, "sub vcl_recv {\n  #FASTLY recv\n  "+fmt.Sprintf(cx, p)+"\n}\n")
		}
	}
	return out
}

var permutePrograms = [][]string{
	{"sub a { call b; }", "sub b { set req.http.B = undefined.b; }", "sub c { call a; }", "sub vcl_recv {\n  #FASTLY recv\n  call c;\n}"},
	{"sub a { call b; }", "sub b { call a; set resp.http.X = \"1\"; }", "sub vcl_recv {\n  #FASTLY recv\n  call a;\n}", "sub vcl_deliver {\n  #FASTLY deliver\n  call b;\n}"},
	{"sub unused1 { esi; }", "sub unused2 { restart; }", "sub used { set req.http.U = \"1\"; }", "sub vcl_recv {\n  #FASTLY recv\n  call used;\n}"},
	{"sub f1() STRING { return f2(); }", "sub f2() STRING { return \"x\"; }", "sub f3() STRING { return f1(); }", "sub vcl_recv {\n  #FASTLY recv\n  set req.http.X = f3();\n}"},
	{"// @scope: fetch\nsub a { set beresp.ttl = 1s; }", "sub b { call a; }", "sub c { set req.http.C = std.itoa(\"c\"); }", "sub vcl_fetch {\n  #FASTLY fetch\n  call b;\n  call c;\n}"},
	{"sub dup { esi; }", "sub dup { restart; }", "sub x { call dup; }", "sub vcl_recv {\n  #FASTLY recv\n  call x;\n}"},
	// per-subroutine state: the same goto label in several subroutines (one of them functional), an unused goto, a goto without destination
	{"sub a {\n  goto done;\n  esi;\n  done:\n}", "sub pick STRING {\n  goto done;\n  return \"a\";\n  done:\n  return \"b\";\n}", "sub c {\n  goto nowhere;\n}", "sub vcl_recv {\n  #FASTLY recv\n  goto done;\n  call a;\n  call c;\n  set req.http.P = pick();\n  done:\n}"},
	{"sub a {\n  declare local var.x STRING;\n  set var.x = \"1\";\n}", "sub fb STRING {\n  declare local var.x STRING;\n  return var.x;\n}", "sub c {\n  declare local var.unused INTEGER;\n  l1:\n}", "sub vcl_recv {\n  #FASTLY recv\n  declare local var.x INTEGER;\n  call a;\n  call c;\n  set req.http.P = fb();\n}"},
	// include statements inside several subroutine bodies (include resolution saves and restores the context)
	{"sub a {\n  include \"pm1\";\n  return(lookup);\n}", "sub b {\n  include \"pm2\";\n  return(pass);\n}", "sub c {\n  set req.http.C = \"1\";\n  return(lookup);\n}", "sub vcl_recv {\n  #FASTLY recv\n  call a;\n  call b;\n  call c;\n  return(lookup);\n}"},
	{"sub vcl_recv {\n  #FASTLY recv\n  include \"pm1\";\n  return(lookup);\n}", "sub vcl_deliver {\n  #FASTLY deliver\n  include \"pm2\";\n  return(deliver);\n}", "sub vcl_fetch {\n  #FASTLY fetch\n  return(deliver);\n}", "sub helper {\n  include \"pm1\";\n}"},
	{"sub a {\n  set req.http.A = \"1\";\n  return(lookup);\n}", "sub b {\n  set req.http.B = undefined.b;\n}", "sub fc BOOL {\n  return true;\n}", "sub vcl_recv {\n  #FASTLY recv\n  call a;\n  call b;\n  if (fc()) { esi; }\n  return(lookup);\n}"},
}

// (appended below) capture-group state: a functional subroutine reading re.group.N next to a subroutine that matches with groups
func init() {
	permutePrograms = append(permutePrograms,
		[]string{"sub vcl_recv {\n  #FASTLY recv\n  if (req.url ~ \"^/(foo)/(bar)\") {\n    set req.http.M = \"1\";\n  }\n  set req.http.P = pick();\n}", "sub pick STRING {\n  return re.group.2;\n}", "sub vcl_fetch {\n  #FASTLY fetch\n  set beresp.ttl = 1s;\n}", "sub own BOOL {\n  if (req.url ~ \"(a)\") {\n    return true;\n  }\n  return false;\n}"},
		[]string{"sub a {\n  if (req.http.A ~ \"(x)(y)(z)\") {\n    set req.http.G = re.group.3;\n  }\n}", "sub fb STRING {\n  return re.group.1 re.group.3;\n}", "sub c {\n  set req.http.C = re.group.1;\n}", "sub vcl_recv {\n  #FASTLY recv\n  call a;\n  call c;\n  set req.http.F = fb();\n}"},
	)
}

// modules the permuted programs may include from inside subroutine bodies
var permuteModules = map[string]string{"pm1": "set req.http.M1 = \"1\";\n", "pm2": "set req.http.M2 = \"2\";\nesi;\n"}

// arity programs: user-defined functional subroutines with 0..2 parameters called with 0..3 arguments, in an expression,
// in a condition and nested in another call; plain subroutines called with arguments
func arityPrograms() []string {
	var out []string
	params := []string{"", "STRING var.a", "STRING var.a, INTEGER var.b"}
	args := []string{"", "\"x\"", "\"x\", 1", "\"x\", 1, true"}
	for _, p := range params {
		for _, a := range args {
			out = append(out,
				fmt.Sprintf("sub pick(%s) STRING { return \"x\"; }\nsub vcl_recv {\n  #FASTLY recv\n  set req.http.B = pick(%s);\n}\n", p, a),
				fmt.Sprintf("sub ok(%s) BOOL { return true; }\nsub vcl_recv {\n  #FASTLY recv\n  if (ok(%s)) { esi; }\n  set req.http.B = std.toupper(if(ok(%s), \"a\", \"b\"));\n}\n", p, a, a),
				fmt.Sprintf("sub plain { esi; }\nsub vcl_recv {\n  #FASTLY recv\n  call plain(%s);\n}\n", a),
			)
		}
	}
	return out
}

func permutations(n int, visit func([]int)) {
	p := make([]int, n)
	for i := range p {
		p[i] = i
	}
	var rec func(k int)
	rec = func(k int) {
		if k == n {
			visit(append([]int{}, p...))
			return
		}
		for i := k; i < n; i++ {
			p[k], p[i] = p[i], p[k]
			rec(k + 1)
			p[k], p[i] = p[i], p[k]
		}
	}
	rec(0)
}

func gen11(tier string, emit func(Case)) {
	thorough := tier == "thorough"
	bound := 2
	if thorough {
		bound = 3
	}
	// (1) totality: derivations and their ill-typed mutants
	engine.Explore(bound, 0, func(c *engine.C) {
		root := gen.G{C: c}.Program(1)
		emit(Case{Kind: "total", Main: gen.Source(root), Label: "derivation"})
	})
	engine.Explore(1, 0, func(c *engine.C) {
		root := gen.G{C: c}.Program(1)
		mutants(root, func(m *gen.Node) { emit(Case{Kind: "total", Main: gen.Source(m), Label: "atom-mutant"}) })
	})
	for _, s := range []string{"sub vcl_recv { error; }", "sub vcl_recv { return; }", "sub f() STRING { return; }", "sub vcl_recv { set req.http.A = ; }", "sub vcl_recv { call vcl_recv; }",
		"sub a { call a; }\nsub vcl_recv { call a; }", "set req.http.A = \"snippet without scope\";", "// @scope: recv\nset req.http.A = \"snippet\";", ""} {
		emit(Case{Kind: "total", Main: s, Label: "special"})
	}
	for _, s := range arityPrograms() {
		emit(Case{Kind: "total", Main: s, Label: "arity"})
	}
	for _, s := range regexPrograms() {
		emit(Case{Kind: "total", Main: s, Label: "regex-literal"})
	}
	includeGraphs(emit)
	// (2) determinism under every map iteration order
	for _, p := range entityPrograms() {
		emit(Case{Kind: "maporder", Main: p, Label: "entities"})
	}
	// (3) permutations of subroutine declarations
	for _, decls := range permutePrograms {
		permutations(len(decls), func(p []int) {
			emit(Case{Kind: "permute", Decls: decls, Perm: p, Label: "declaration-order"})
		})
	}
}

// ---------------------------------------------------------------------------
// oracles

func budget(c Case) int64 {
	n := len(c.Main)
	for _, m := range c.Modules {
		n += len(m)
	}
	return 2_000_000 + 5_000*int64(n)
}

type lintOut struct {
	res  lintx.Result
	fuel bool
}

func lintGuard(c Case) (out lintOut) {
	defer func() {
		fuel.Disarm()
		if r := recover(); r != nil {
			if strings.HasPrefix(fmt.Sprint(r), fuel.Sentinel) {
				out.fuel = true
				return
			}
			panic(r)
		}
	}()
	fuel.Arm(budget(c))
	out.res = lintxLint(c)
	return out
}

func lintxLint(c Case) lintx.Result {
	// the fuel panic must pass through lintx's own recover: lintx reports it as a panic, detect by message
	return lintx.Lint(c.Main, c.Modules)
}

func shape(label string) string {
	if strings.HasPrefix(label, "include-graph") {
		return "include-graph"
	}
	return label
}

func run(c Case) engine.Result {
	switch c.Kind {
	case "total":
		o := lintGuard(c)
		r := o.res
		if r.PanicSite != "" {
			if strings.HasPrefix(r.PanicMsg, fuel.Sentinel) {
				return engine.Result{NonTrivial: true, Outcome: "nontermination", Findings: []engine.Finding{{
					Class: "nontermination|" + shape(c.Label), What: fmt.Sprintf("linting does not terminate within the fuel budget (%s)", c.Label), Detail: c}}}
			}
			return engine.Result{NonTrivial: true, Outcome: "panic", Findings: []engine.Finding{{
				Class: "panic@" + r.PanicSite + "|" + shape(c.Label), What: fmt.Sprintf("linter panics (%s): %s", c.Label, r.PanicMsg), Detail: c}}}
		}
		if r.ParseErr != nil {
			return engine.Result{Skipped: true}
		}
		// repeated run: same multiset with locations
		r2 := lintGuard(c).res
		if strings.Join(r.KeysLoc(), "\n") != strings.Join(r2.KeysLoc(), "\n") || r.Fatal != r2.Fatal {
			return engine.Result{NonTrivial: true, Outcome: "nondeterministic", Findings: []engine.Finding{{
				Class: "nondeterministic-repeat|" + shape(c.Label), What: "two runs on the same program report different diagnostics: " + diff(r.KeysLoc(), r2.KeysLoc()), Detail: c}}}
		}
		out := "clean"
		if r.Fatal != "" {
			out = "fatal"
		} else if len(r.Diags) > 0 {
			out = "diagnostics"
		}
		return engine.Result{NonTrivial: len(c.Main) > 0, Outcome: out}
	case "maporder":
		return runMapOrder(c)
	case "permute":
		return runPermute(c)
	}
	panic("unknown kind")
}

func diff(a, b []string) string {
	m := map[string]int{}
	for _, k := range a {
		m[k]++
	}
	for _, k := range b {
		m[k]--
	}
	var only1, only2 []string
	for k, n := range m {
		if n > 0 {
			only1 = append(only1, k)
		} else if n < 0 {
			only2 = append(only2, k)
		}
	}
	sort.Strings(only1)
	sort.Strings(only2)
	return fmt.Sprintf("only in first %q, only in second %q", only1, only2)
}

func runMapOrder(c Case) engine.Result {
	var ref []string
	var refFatal string
	var finding *engine.Finding
	execs := 0
	sitesSeen := map[string]bool{}
	st := engine.Explore(2, 0, func(cc *engine.C) {
		vmap.Perm = func(site string, n int) int {
			sitesSeen[site] = true
			if n > 4 {
				// more than 4! orders: natural, reversed, every rotation and every reversed rotation (2n orders)
				ch := cc.Choose(2*n, site)
				return -ch
			}
			return cc.Choose(vmap.Factorial(n), site)
		}
		defer func() { vmap.Perm = nil }()
		r := lintx.Lint(c.Main, nil)
		execs++
		if r.PanicSite != "" {
			if finding == nil {
				finding = &engine.Finding{Class: "panic@" + r.PanicSite + "|maporder", What: "linter panics under a map order: " + r.PanicMsg, Detail: c.Main}
			}
			return
		}
		keys := r.KeysLoc()
		if ref == nil {
			ref, refFatal = keys, r.Fatal
			if ref == nil {
				ref = []string{}
			}
			return
		}
		if strings.Join(ref, "\n") != strings.Join(keys, "\n") || refFatal != r.Fatal {
			if finding == nil {
				var vec []string
				for i, v := range cc.Vector() {
					if v != 0 {
						vec = append(vec, fmt.Sprintf("choice %d = permutation %d", i, v))
					}
				}
				finding = &engine.Finding{
					Class:  "order-dependent|" + firstDiffRule(ref, keys),
					What:   fmt.Sprintf("diagnostics depend on map iteration order (%s): %s", strings.Join(vec, ", "), diff(ref, keys)),
					Detail: c.Main,
				}
			}
		}
	})
	res := engine.Result{NonTrivial: execs > 1, Outcome: fmt.Sprintf("orders-explored-%d", bucket(int(st.Executions)))}
	if finding != nil {
		res.Findings = []engine.Finding{*finding}
		res.Outcome = "order-dependent"
	}
	return res
}

func bucket(n int) int {
	switch {
	case n <= 1:
		return 1
	case n < 10:
		return 10
	case n < 100:
		return 100
	}
	return 1000
}

func firstDiffRule(a, b []string) string {
	m := map[string]int{}
	for _, k := range a {
		m[k]++
	}
	for _, k := range b {
		m[k]--
	}
	var ks []string
	for k, n := range m {
		if n != 0 {
			ks = append(ks, k)
		}
	}
	sort.Strings(ks)
	if len(ks) == 0 {
		return "fatal"
	}
	p := strings.SplitN(ks[0], "|", 3)
	if len(p) >= 2 {
		return p[1]
	}
	return ks[0]
}

func runPermute(c Case) engine.Result {
	build := func(order []int) string {
		var ds []string
		for _, i := range order {
			ds = append(ds, c.Decls[i])
		}
		return strings.Join(ds, "\n") + "\n"
	}
	id := make([]int, len(c.Decls))
	for i := range id {
		id[i] = i
	}
	base := lintx.Lint(build(id), permuteModules)
	perm := lintx.Lint(build(c.Perm), permuteModules)
	if perm.PanicSite != "" && base.PanicSite == "" {
		return engine.Result{NonTrivial: true, Outcome: "panic", Findings: []engine.Finding{{Class: "panic@" + perm.PanicSite + "|permute", What: "linter panics for a permuted declaration order: " + perm.PanicMsg, Detail: build(c.Perm)}}}
	}
	if strings.Join(base.Keys(), "\n") != strings.Join(perm.Keys(), "\n") || base.Fatal != perm.Fatal {
		return engine.Result{NonTrivial: true, Outcome: "order-dependent", Findings: []engine.Finding{{
			Class:  "declaration-order|" + firstDiffRule(base.Keys(), perm.Keys()),
			What:   fmt.Sprintf("permuting the subroutine declarations (%v) changes the diagnostics: %s", c.Perm, diff(base.Keys(), perm.Keys())),
			Detail: map[string]string{"base": build(id), "permuted": build(c.Perm)},
		}}}
	}
	return engine.Result{NonTrivial: fmt.Sprint(c.Perm) != fmt.Sprint(id), Outcome: "same"}
}

func init() {
	engine.Register(engine.Spec[Case]{
		ID:    "C11",
		Level: "exploration",
		Rule: "(1) totality under a fuel budget: every statement/declaration derivation within 2 (quick) / 3 (thorough) deviations, every single-site replacement of an expression atom by each of 10 atom kinds (ill-typed mutants) in every derivation within 1 deviation, special programs, functional subroutines with 0-2 parameters called with 0-3 arguments, and all 12288 include graphs over modules {main, a, b} where each file includes any subset of {a, b, itself, missing} at root level or inside a subroutine; each linted twice (repeat determinism). (2) determinism over Go's randomised map iteration: the instrumented build routes every range-over-map loop of linter and linter/context (found by go/types at build time) through a seam; for 20 programs with 2-3 entities per map and call graphs with cycles, every permutation at every dynamic loop execution is explored with at most 2 loop executions deviating from natural order. (3) all permutations of the declarations of 9 four-declaration programs (call cycles, duplicates, per-subroutine goto labels and locals incl. functional subroutines). Oracles: no panic, no fuel exhaustion, identical diagnostic multisets (with locations for 1 and 2, without for 3). non-trivial = non-empty program / more than one order explored / non-identity permutation; distinct = distinct case Round 3: 3 programs whose subroutine scope is the union of 3-6 callers' scopes (map-order family), 51 regex literals that end inside a group / class / quantifier / escape x 8 places a pattern is looked at (totality family); maps with more than 4 keys are iterated in 2n orders (natural, reversed, rotations, reversed rotations), not n!. Round 4: two permuted programs with capture-group state (a functional subroutine reading re.group.N next to subroutines that match with groups); the include graphs have a third placement (inside an if block of a subroutine / of a statement module).",
		Gen:  gen11,
		Key: func(c Case) string {
			ks := make([]string, 0, len(c.Modules))
			for k := range c.Modules {
				ks = append(ks, k)
			}
			sort.Strings(ks)
			var b strings.Builder
			b.WriteString(c.Kind + "\x00" + c.Main)
			for _, k := range ks {
				b.WriteString("\x00" + k + "\x00" + c.Modules[k])
			}
			b.WriteString(fmt.Sprint(c.Perm) + strings.Join(c.Decls, "\x00"))
			return b.String()
		},
		Run: run,
		Extra: func(string) map[string]any {
			return map[string]any{"map_range_seam": "every range-over-map loop in linter and linter/context is rewritten at build time (see instr-stats in the build log); sites with more than 4 keys use natural order only"}
		},
		Assumptions: []string{"non-termination is decided by a fuel budget (2e6 + 5000 ticks per source byte)", "map iteration order is owned through source rewriting of range-over-map loops; other sources of nondeterminism are covered only by the repeated run"},
	})
}
