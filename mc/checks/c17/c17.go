// Package c17: HTTP header variables obey store laws (exhaustive operation histories on the real objects).
package c17

import (
	"fmt"
	"regexp"
	"strings"

	"verif/mc/engine"
	"verif/mc/sim"
)

// Op is one header operation.
type Op struct {
	Kind  string `json:"kind"` // set | setfield | add | unset | unsetfield
	Name  string `json:"name"` // header name spelling
	Key   string `json:"key,omitempty"`
	Value string `json:"value,omitempty"` // VCL expression text
	Val   string `json:"val,omitempty"`   // expected read-back (up to first newline); "\x00" = not set
}

// Case is an operation history on one object.
type Case struct {
	Obj   string `json:"obj"`
	Scope string `json:"scope"`
	Ops   []Op   `json:"ops"`
	// cross-object histories: after Ops on Obj, Op2 is applied to Obj2 in Scope2 on the same interpreter, and Obj is read again
	Obj2   string `json:"obj2,omitempty"`
	Scope2 string `json:"scope2,omitempty"`
	Op2    *Op    `json:"op2,omitempty"`
	// Keys, when set, replaces the sub-field keys read in every snapshot (keys that differ only in one punctuation character)
	Keys []string `json:"keys,omitempty"`
	// Names, when set, replaces the header names read in every snapshot (the Cookie header has its own code path)
	Names []string `json:"names,omitempty"`
}

var objects = []struct{ obj, scope string }{
	{"req", "recv"}, {"bereq", "miss"}, {"beresp", "fetch"}, {"obj", "error"}, {"resp", "deliver"},
	// the same objects in the other scopes that may write them (each scope has its own Variable implementation)
	{"bereq", "pass"}, {"bereq", "fetch"}, {"req", "deliver"}, {"resp", "log"}, {"req", "pass"},
}

var names = []string{"Foo", "fOO", "Bar"}
var keys = []string{"a", "b"}

var defaultKeys = []string{"a", "b"}
var defaultNames = []string{"Foo", "fOO", "Bar"}

const notset = "\x00"

func alphabet() []Op {
	var ops []Op
	type v struct{ expr, val string }
	for _, n := range names {
		for _, x := range []v{{`"t"`, "t"}, {`"a=1,b=2"`, "a=1,b=2"}, {`""`, ""}, {"OBJ.http.Never-Set", notset}, {`"l1%0Al2"`, "l1"}} {
			ops = append(ops, Op{Kind: "set", Name: n, Value: x.expr, Val: x.val})
		}
		for _, k := range keys {
			for _, x := range []v{{`"v"`, "v"}, {`""`, ""}} {
				ops = append(ops, Op{Kind: "setfield", Name: n, Key: k, Value: x.expr, Val: x.val})
			}
			ops = append(ops, Op{Kind: "unsetfield", Name: n, Key: k})
		}
		for _, x := range []v{{`"t2"`, "t2"}, {`"b=9"`, "b=9"}} {
			ops = append(ops, Op{Kind: "add", Name: n, Value: x.expr, Val: x.val})
		}
		ops = append(ops, Op{Kind: "unset", Name: n})
	}
	return ops
}

// separatorOps: sub-field values that contain the characters the header syntax itself uses
func separatorOps() []Op {
	var ops []Op
	for _, n := range []string{"Foo", "fOO"} {
		for _, val := range []string{"x,y", "x;y", "x y", "x=y", "x, y", ",", "a=1,b=2"} {
			ops = append(ops, Op{Kind: "setfield", Name: n, Key: "a", Value: `"` + val + `"`, Val: val})
		}
	}
	for _, val := range []string{"x,y", "x y", "x; y=z"} {
		ops = append(ops, Op{Kind: "set", Name: "Foo", Value: `"` + val + `"`, Val: val})
	}
	// a line break as the first, the last and the only character: the value read back ends before it
	for _, n := range []string{"Foo", "fOO"} {
		ops = append(ops, Op{Kind: "set", Name: n, Value: `"%0Aabc"`, Val: ""}, Op{Kind: "set", Name: n, Value: `"abc%0A"`, Val: "abc"}, Op{Kind: "set", Name: n, Value: `"%0A"`, Val: ""}, Op{Kind: "set", Name: n, Value: `"%0Aabc%0Adef"`, Val: ""})
	}
	return ops
}

func (o Op) stmt(obj string) string {
	h := obj + ".http." + o.Name
	val := strings.ReplaceAll(o.Value, "OBJ", obj)
	switch o.Kind {
	case "set":
		return fmt.Sprintf("set %s = %s;", h, val)
	case "setfield":
		return fmt.Sprintf("set %s:%s = %s;", h, o.Key, val)
	case "add":
		return fmt.Sprintf("add %s = %s;", h, val)
	case "append":
		return fmt.Sprintf("set %s += %s;", h, val)
	case "unset":
		return fmt.Sprintf("unset %s;", h)
	case "unsetfield":
		return fmt.Sprintf("unset %s:%s;", h, o.Key)
	}
	panic("op")
}

func (o Op) String() string {
	switch o.Kind {
	case "set", "add":
		return fmt.Sprintf("%s %s=%s", o.Kind, o.Name, o.Value)
	case "append":
		return fmt.Sprintf("set %s+=%s", o.Name, o.Value)
	case "setfield":
		return fmt.Sprintf("set %s:%s=%s", o.Name, o.Key, o.Value)
	case "unsetfield":
		return fmt.Sprintf("unset %s:%s", o.Name, o.Key)
	}
	return "unset " + o.Name
}

// reads observed in every snapshot
func readNames() []string {
	var rs []string
	for _, n := range names {
		rs = append(rs, n)
		for _, k := range keys {
			rs = append(rs, n+":"+k)
		}
	}
	return rs
}

func program(c Case) string {
	var b strings.Builder
	b.WriteString("sub probe {\n")
	for _, n := range []string{"Foo", "Bar", "Never-Set"} {
		fmt.Fprintf(&b, "  unset %s.http.%s;\n", c.Obj, n)
	}
	if len(c.Names) > 0 {
		fmt.Fprintf(&b, "  unset %s.http.%s;\n", c.Obj, c.Names[0])
	}
	snap := func(i int) {
		for _, r := range readNames() {
			h := c.Obj + ".http." + r
			fmt.Fprintf(&b, "  log \"S%d|%s=\" %s;\n", i, r, h)
			fmt.Fprintf(&b, "  if (%s) { log \"S%d|%s?=T\"; } else { log \"S%d|%s?=F\"; }\n", h, i, r, i, r)
		}
	}
	snap(0)
	for i, o := range c.Ops {
		b.WriteString("  " + o.stmt(c.Obj) + "\n")
		snap(i + 1)
	}
	b.WriteString("}\n")
	return b.String()
}

type snapshot map[string]string

func parse(logs []string) map[int]snapshot {
	out := map[int]snapshot{}
	for _, l := range logs {
		if len(l) < 3 || l[0] != 'S' {
			continue
		}
		bar := strings.IndexByte(l, '|')
		eq := strings.IndexByte(l, '=')
		if bar < 0 || eq < bar {
			continue
		}
		var i int
		fmt.Sscanf(l[1:bar], "%d", &i)
		if out[i] == nil {
			out[i] = snapshot{}
		}
		out[i][l[bar+1:eq]] = l[eq+1:]
	}
	return out
}

func execute(c Case) (map[int]snapshot, error) {
	logs, err := sim.RunProbe(program(c), c.Scope)
	if err != nil {
		return nil, err
	}
	return parse(logs), nil
}

// executeCross: Ops on Obj (snapshots 0..n), then Op2 on Obj2 in its own scope, then snapshot n+1 of Obj.
func executeCross(c Case) (map[int]snapshot, error) {
	var b strings.Builder
	b.WriteString("sub p1 {\n")
	for _, n := range []string{"Foo", "Bar", "Never-Set"} {
		fmt.Fprintf(&b, "  unset %s.http.%s;\n", c.Obj, n)
	}
	snap := func(i int) {
		for _, r := range readNames() {
			h := c.Obj + ".http." + r
			fmt.Fprintf(&b, "  log \"S%d|%s=\" %s;\n", i, r, h)
			fmt.Fprintf(&b, "  if (%s) { log \"S%d|%s?=T\"; } else { log \"S%d|%s?=F\"; }\n", h, i, r, i, r)
		}
	}
	for _, o := range c.Ops {
		b.WriteString("  " + o.stmt(c.Obj) + "\n")
	}
	snap(0)
	b.WriteString("}\nsub p2 {\n  " + c.Op2.stmt(c.Obj2) + "\n}\nsub p3 {\n")
	snap(1)
	b.WriteString("}\n")
	src := b.String()
	ip, cap, err := sim.Prepare("sub vcl_recv { }\n")
	if err != nil {
		return nil, err
	}
	for _, st := range []struct{ scope, sub string }{{c.Scope, "p1"}, {c.Scope2, "p2"}, {c.Scope, "p3"}} {
		if err := sim.CallSub(ip, st.scope, st.sub, src); err != nil {
			return nil, err
		}
	}
	return parse(cap.Logs), nil
}

func runCross(c Case) engine.Result {
	snaps, err := executeCross(c)
	if err != nil || snaps[0] == nil || snaps[1] == nil {
		return engine.Result{Skipped: true}
	}
	res := engine.Result{NonTrivial: true, Steps: int64(len(c.Ops) + 1), Outcome: "cross"}
	for _, r := range readNames() {
		if snaps[0][r] != snaps[1][r] || snaps[0][r+"?"] != snaps[1][r+"?"] {
			res.Findings = append(res.Findings, engine.Finding{Class: fmt.Sprintf("cross-object-frame|%s|%s->%s", c.Op2.Kind, objKind(c.Obj2), objKind(c.Obj)),
				What: fmt.Sprintf("after %v on %s, `%s` on %s (scope %s) changed the read of %s.http.%s from %q (set=%s) to %q (set=%s)", c.Ops, c.Obj, c.Op2, c.Obj2, c.Scope2, c.Obj, r, snaps[0][r], snaps[0][r+"?"], snaps[1][r], snaps[1][r+"?"])})
			res.Outcome = "law-violation"
			break
		}
	}
	return res
}

func objKind(o string) string {
	if o == "req" || o == "bereq" {
		return "request:" + o
	}
	return "response:" + o
}

func sameHeader(a, b string) bool {
	return strings.EqualFold(strings.SplitN(a, ":", 2)[0], strings.SplitN(b, ":", 2)[0])
}

const nullText = "(null)"

// laws checks one transition.
func laws(o Op, before, after snapshot) []engine.Finding {
	var fs []engine.Finding
	add := func(class, what string) {
		fs = append(fs, engine.Finding{Class: class, What: what})
	}
	spellRel := func(r string) string {
		if strings.SplitN(r, ":", 2)[0] == o.Name {
			return "same-spelling"
		}
		return "other-spelling"
	}
	for _, r := range readNames() {
		base := strings.SplitN(r, ":", 2)[0]
		isField := strings.Contains(r, ":")
		if !sameHeader(r, o.Name) {
			// frame: every other header reads as before
			if before[r] != after[r] || before[r+"?"] != after[r+"?"] {
				add(fmt.Sprintf("frame|%s|other-header-%s", o.Kind, fieldOrWhole(isField)), fmt.Sprintf("`%s` changed the read of %s from %q to %q", o, r, before[r], after[r]))
			}
			continue
		}
		_ = base
		switch o.Kind {
		case "set":
			if !isField && o.Val != notset {
				if after[r] != o.Val {
					add("set-read|"+spellRel(r)+"|"+valClass(o.Val), fmt.Sprintf("after `%s`, %s reads %q, want %q", o, r, after[r], o.Val))
				}
			}
		case "append":
			// (only in histories without add and without line breaks) the header reads as its former value, empty when
			// it was not set, followed by the operand, and it is set afterwards even when both are empty
			if !isField {
				old := before[r]
				if old == nullText && before[r+"?"] == "F" {
					old = ""
				}
				if after[r] != old+o.Val {
					add("append-read|"+spellRel(r)+"|"+valClass(o.Val)+"|onto:"+valClass(before[r]), fmt.Sprintf("after `%s`, %s reads %q, want %q", o, r, after[r], old+o.Val))
				}
			}
		case "unset":
			if after[r] != nullText || after[r+"?"] != "F" {
				add("unset-read|"+spellRel(r)+"|"+fieldOrWhole(isField), fmt.Sprintf("after `%s`, %s reads %q (truthy=%s), want not set", o, r, after[r], after[r+"?"]))
			}
		case "setfield":
			if isField {
				k := strings.SplitN(r, ":", 2)[1]
				if k == o.Key {
					if after[r] != o.Val {
						add("setfield-read|"+spellRel(r)+"|"+valClass(o.Val), fmt.Sprintf("after `%s`, %s reads %q, want %q", o, r, after[r], o.Val))
					}
				} else if strings.EqualFold(k, o.Key) {
					// the same key in another letter case: the property does not say whether it is the same sub-field
				} else if before[r] != after[r] || before[r+"?"] != after[r+"?"] {
					add(frameClass("setfield-frame", spellRel(r)+"|value:"+valClass(o.Val), before, after, o.Name), fmt.Sprintf("`%s` changed the other sub-field %s from %q to %q", o, r, before[r], after[r]))
				}
			}
		case "unsetfield":
			if isField {
				k := strings.SplitN(r, ":", 2)[1]
				if k == o.Key {
					if after[r] != nullText || after[r+"?"] != "F" {
						add("unsetfield-read|"+spellRel(r), fmt.Sprintf("after `%s`, %s reads %q (truthy=%s), want not set", o, r, after[r], after[r+"?"]))
					}
				} else if strings.EqualFold(k, o.Key) {
				} else if before[r] != after[r] || before[r+"?"] != after[r+"?"] {
					add(frameClass("unsetfield-frame", spellRel(r), before, after, o.Name), fmt.Sprintf("`%s` changed the other sub-field %s from %q to %q", o, r, before[r], after[r]))
				}
			}
		}
	}
	return fs
}

var quotedPairRe = regexp.MustCompile(`"[^"]*,[^"]*=[^"]*"`)

// quotedPair qualifies a class when the header holds, before or after the step, a quoted sub-field value that itself
// contains `,key=` text (the recorded reader defect: sub-fields are found inside quoted values).
func quotedPair(before, after snapshot, name string) string {
	if quotedPairRe.MatchString(before[name]) || quotedPairRe.MatchString(after[name]) {
		return "|quoted-pair-in-header"
	}
	return ""
}

// frameClass: one class per operation kind for the recorded reader defect, the detailed key otherwise.
func frameClass(kind, detail string, before, after snapshot, name string) string {
	if quotedPair(before, after, name) != "" {
		return kind + "|quoted-pair-in-header"
	}
	return kind + "|" + detail
}

func fieldOrWhole(isField bool) string {
	if isField {
		return "field"
	}
	return "whole"
}

func valClass(v string) string {
	switch {
	case v == "":
		return "empty"
	case strings.Contains(v, "=") && strings.Contains(v, ","):
		return "with-subfields"
	case strings.ContainsAny(v, ",;= "):
		return "with-separator"
	case v == "l1":
		return "multiline"
	}
	return "token"
}

func swapSpelling(c Case) Case {
	s := Case{Obj: c.Obj, Scope: c.Scope}
	for _, o := range c.Ops {
		switch o.Name {
		case "Foo":
			o.Name = "fOO"
		case "fOO":
			o.Name = "Foo"
		}
		s.Ops = append(s.Ops, o)
	}
	return s
}

func swapRead(r string) string {
	p := strings.SplitN(r, ":", 2)
	switch p[0] {
	case "Foo":
		p[0] = "fOO"
	case "fOO":
		p[0] = "Foo"
	}
	return strings.Join(p, ":")
}

func run(c Case) engine.Result {
	keys, names = defaultKeys, defaultNames
	if len(c.Keys) > 0 {
		keys = c.Keys
	}
	if len(c.Names) > 0 {
		names = c.Names
	}
	if c.Op2 != nil {
		return runCross(c)
	}
	snaps, err := execute(c)
	if err != nil {
		return engine.Result{Skipped: true}
	}
	res := engine.Result{NonTrivial: true, Steps: int64(len(c.Ops))}
	seen := map[string]bool{}
	for i, o := range c.Ops {
		b, a := snaps[i], snaps[i+1]
		if b == nil || a == nil {
			return engine.Result{Skipped: true}
		}
		for _, f := range laws(o, b, a) {
			prefix := ""
			if i > 0 {
				prefix = "after-" + c.Ops[i-1].Kind + "|"
			}
			_ = prefix
			if !seen[f.Class] {
				seen[f.Class] = true
				f.What = fmt.Sprintf("%s.%s history %v: %s", c.Obj, c.Scope, c.Ops[:i+1], f.What)
				f.Class = f.Class
				res.Findings = append(res.Findings, f)
			}
		}
	}
	// spelling invariance (differential): swap Foo <-> fOO in the history
	if sw := swapSpelling(c); fmt.Sprint(sw.Ops) != fmt.Sprint(c.Ops) {
		s2, err2 := execute(sw)
		if err2 == nil {
			last, last2 := snaps[len(c.Ops)], s2[len(c.Ops)]
			for _, r := range readNames() {
				if last[r] != last2[swapRead(r)] || last[r+"?"] != last2[swapRead(r)+"?"] {
					cls := "spelling-variance|" + c.Ops[len(c.Ops)-1].Kind
					if !seen[cls] {
						seen[cls] = true
						res.Findings = append(res.Findings, engine.Finding{Class: cls,
							What: fmt.Sprintf("%s.%s history %v and the same history with Foo/fOO swapped differ: %s reads %q vs %s reads %q", c.Obj, c.Scope, c.Ops, r, last[r], swapRead(r), last2[swapRead(r)])})
					}
					break
				}
			}
		}
	}
	// outcome = final observable state (distinct outcomes = distinct states reached)
	var st []string
	last := snaps[len(c.Ops)]
	for _, r := range readNames() {
		st = append(st, last[r]+last[r+"?"])
	}
	res.Outcome = strings.Join(st, "|")
	if len(res.Findings) > 0 {
		res.Outcome = "law-violation"
	}
	return res
}

func gen17(tier string, emit func(Case)) {
	ops := alphabet()
	for oi, ob := range objects {
		// quick: depth 3 on req, depth 2 on the other four objects (same code path per object kind:
		// request objects req/bereq, response objects beresp/obj/resp); thorough: depth 3 everywhere
		// and depth 4 on req over the operations on Foo/fOO
		depth := 2
		if oi == 0 || tier == "thorough" {
			depth = 3
		}
		var rec func(h []Op, alpha []Op, max int)
		rec = func(h []Op, alpha []Op, max int) {
			if len(h) > 0 {
				emit(Case{Obj: ob.obj, Scope: ob.scope, Ops: append([]Op{}, h...)})
			}
			if len(h) == max {
				return
			}
			for _, o := range alpha {
				rec(append(h, o), alpha, max)
			}
		}
		rec(nil, ops, depth)
		// values with separators: every history of up to 2 operations over the sub-field operations on Foo/fOO plus the separator values
		{
			var small []Op
			for _, o := range ops {
				if o.Name != "Bar" && (o.Kind == "setfield" || o.Kind == "unsetfield" || (o.Kind == "set" && o.Val == "a=1,b=2")) {
					small = append(small, o)
				}
			}
			seps := separatorOps()
			for _, a := range seps {
				emit(Case{Obj: ob.obj, Scope: ob.scope, Ops: []Op{a}})
				for _, b2 := range small {
					emit(Case{Obj: ob.obj, Scope: ob.scope, Ops: []Op{a, b2}})
					emit(Case{Obj: ob.obj, Scope: ob.scope, Ops: []Op{b2, a}})
				}
				for _, b2 := range seps {
					emit(Case{Obj: ob.obj, Scope: ob.scope, Ops: []Op{a, b2}})
				}
			}
		}
		// keys that differ in one punctuation character only (a.b, a-b, a_b): every history of up to 3 set / unset operations on them
		if oi == 0 || oi == 4 || tier == "thorough" {
			pk := []string{"a.b", "a-b", "a_b"}
			var kops []Op
			for _, k := range pk {
				kops = append(kops, Op{Kind: "setfield", Name: "Foo", Key: k, Value: `"1"`, Val: "1"}, Op{Kind: "setfield", Name: "fOO", Key: k, Value: `"2"`, Val: "2"}, Op{Kind: "unsetfield", Name: "Foo", Key: k})
			}
			var rec2 func(h []Op)
			rec2 = func(h []Op) {
				if len(h) > 0 {
					emit(Case{Obj: ob.obj, Scope: ob.scope, Ops: append([]Op{}, h...), Keys: pk})
				}
				if len(h) == 3 {
					return
				}
				for _, o := range kops {
					rec2(append(h, o))
				}
			}
			rec2(nil)
		}
		// keys that differ in letter case only, next to an unrelated key: every history of up to 3 operations
		if oi == 0 || oi == 4 || tier == "thorough" {
			ck := []string{"foo", "FOO", "bar"}
			var kops []Op
			for _, n := range []string{"Foo", "fOO"} {
				kops = append(kops, Op{Kind: "setfield", Name: n, Key: "foo", Value: `"1"`, Val: "1"}, Op{Kind: "setfield", Name: n, Key: "FOO", Value: `"2"`, Val: "2"}, Op{Kind: "unsetfield", Name: n, Key: "FOO"})
			}
			kops = append(kops, Op{Kind: "setfield", Name: "Foo", Key: "bar", Value: `"9"`, Val: "9"}, Op{Kind: "unsetfield", Name: "Foo", Key: "foo"})
			var rec4 func(h []Op)
			rec4 = func(h []Op) {
				if len(h) > 0 {
					emit(Case{Obj: ob.obj, Scope: ob.scope, Ops: append([]Op{}, h...), Keys: ck})
				}
				if len(h) == 3 {
					return
				}
				for _, o := range kops {
					rec4(append(h, o))
				}
			}
			rec4(nil)
		}
		// `set H += V` (append) next to set / unset / sub-field writes, no add and no line breaks: every history of up to 3 operations
		{
			var aops []Op
			for _, n := range []string{"Foo", "fOO"} {
				aops = append(aops, Op{Kind: "append", Name: n, Value: `"x"`, Val: "x"}, Op{Kind: "append", Name: n, Value: `""`, Val: ""})
			}
			aops = append(aops, Op{Kind: "set", Name: "Foo", Value: `"t"`, Val: "t"}, Op{Kind: "set", Name: "fOO", Value: `""`, Val: ""}, Op{Kind: "unset", Name: "fOO"},
				Op{Kind: "setfield", Name: "Foo", Key: "a", Value: `"v"`, Val: "v"}, Op{Kind: "append", Name: "Bar", Value: `"y"`, Val: "y"}, Op{Kind: "set", Name: "Foo", Value: "OBJ.http.Never-Set", Val: notset})
			var rec5 func(h []Op)
			rec5 = func(h []Op) {
				if len(h) > 0 {
					emit(Case{Obj: ob.obj, Scope: ob.scope, Ops: append([]Op{}, h...)})
				}
				if len(h) == 3 {
					return
				}
				for _, o := range aops {
					rec5(append(h, o))
				}
			}
			rec5(nil)
		}
		// the Cookie request header (own code path: cookies are kept apart, the separator is ";"): every history of up to 3 operations
		if ob.obj == "req" {
			cn := []string{"Cookie", "cookie"}
			var cops []Op
			for _, n := range cn {
				for _, k := range []string{"a", "b"} {
					cops = append(cops, Op{Kind: "setfield", Name: n, Key: k, Value: `"1"`, Val: "1"}, Op{Kind: "setfield", Name: n, Key: k, Value: `"2"`, Val: "2"}, Op{Kind: "unsetfield", Name: n, Key: k})
				}
			}
			cops = append(cops, Op{Kind: "set", Name: "Cookie", Value: `"a=1; b=2"`, Val: "a=1; b=2"}, Op{Kind: "set", Name: "Cookie", Value: `"a=1; b=2; a=3"`, Val: "a=1; b=2; a=3"}, Op{Kind: "unset", Name: "cookie"})
			var rec3 func(h []Op)
			rec3 = func(h []Op) {
				if len(h) > 0 {
					emit(Case{Obj: ob.obj, Scope: ob.scope, Ops: append([]Op{}, h...), Names: cn})
				}
				if len(h) == 3 {
					return
				}
				for _, o := range cops {
					rec3(append(h, o))
				}
			}
			rec3(nil)
		}
		// cross-object histories: 0 or 1 operation on this object, then one operation on each other object; this object's reads must not move
		for _, ob2 := range objects {
			if ob2.obj == ob.obj {
				continue
			}
			for i := range ops {
				o2 := ops[i]
				emit(Case{Obj: ob.obj, Scope: ob.scope, Obj2: ob2.obj, Scope2: ob2.scope, Op2: &o2})
				for _, o1 := range ops {
					if o1.Name == "Bar" || (tier != "thorough" && o2.Name == "Bar") {
						continue
					}
					emit(Case{Obj: ob.obj, Scope: ob.scope, Ops: []Op{o1}, Obj2: ob2.obj, Scope2: ob2.scope, Op2: &o2})
				}
			}
		}
		if tier == "thorough" && oi == 0 {
			var foo []Op
			for _, o := range ops {
				if o.Name != "Bar" {
					foo = append(foo, o)
				}
			}
			rec(nil, foo, 4)
		}
	}
}

func init() {
	engine.Register(engine.Spec[Case]{
		ID:    "C17",
		Level: "model_checking",
		Rule: "explicit-state exploration of the real header objects: every history of up to 3 operations on req and 2 on the other objects (quick) / 3 on all objects and 4 on req over the 28 operations on Foo/fOO (thorough), over an alphabet of 42 operations (set with 5 values incl. empty, not-set, multi-line and a value with sub-fields; set/unset of sub-fields a and b; add; unset; on the names Foo, fOO, Bar) on req (recv), bereq (miss), beresp (fetch), obj (error) and resp (deliver); each history runs on a fresh interpreter through the real statement path with a snapshot of 9 reads (+ set/not-set test) after every step; invariants (read-after-set, read-after-unset, frame conditions for other headers and other sub-fields) on every transition and spelling invariance (history with Foo/fOO swapped) on every final state; plus histories of up to 2 operations with sub-field values containing separators (comma, semicolon, space, equals), and cross-object histories (0-1 operation on one object, one operation on each of the other four objects in its own scope on the same interpreter, reads of the first object must not move); a state is the vector of reads (used for counting only, histories are never pruned) Round 3: every history of up to 3 operations over {set H += V, set, unset, sub-field set} without add and without line breaks (append law: former value, empty when not set, followed by the operand); every history of up to 3 operations over sub-field keys foo / FOO / bar (the same key in another letter case is neither demanded nor framed). Round 4: the objects are also exercised in the other scopes that may write them (bereq in pass and fetch, req in deliver and pass, resp in log), histories of up to 2 operations each.",
		Gen:  gen17,
		Key: func(c Case) string {
			var b strings.Builder
			b.WriteString(c.Obj + "@" + c.Scope)
			for _, o := range c.Ops {
				b.WriteString("|" + o.String())
			}
			if c.Op2 != nil {
				b.WriteString("||" + c.Obj2 + "@" + c.Scope2 + "|" + c.Op2.String())
			}
			if len(c.Keys) > 0 {
				b.WriteString("||keys")
			}
			if len(c.Names) > 0 {
				b.WriteString("||names")
			}
			return b.String()
		},
		Run: run,
		Finish: func(rep *engine.Report) {
			states := len(rep.Outcomes)
			if _, ok := rep.Outcomes["law-violation"]; ok {
				states--
			}
			rep.Extra["states"] = states
			rep.Extra["transitions"] = rep.Steps
			rep.Extra["traces_validated_against_impl"] = rep.Evaluations
			rep.Extra["state_definition"] = "vector of the 9 header reads and their set/not-set tests after the last operation; histories are executed on the implementation itself, so every explored trace is an implementation trace"
		},
		Assumptions: []string{"the state of a header object is observed through VCL reads (log and if) of every name spelling and sub-field", "histories containing a statement the interpreter refuses are skipped"},
	})
}
