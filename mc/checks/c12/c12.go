// Package c12: ignore comments suppress exactly what they cover.
package c12

import (
	"fmt"
	"sort"
	"strings"

	"verif/mc/engine"
	"verif/mc/lintx"
)

// S is a statement of a base program: a simple line or a compound with blocks.
type S struct {
	Line string
	Body []*S // non-nil for compound statements (may be empty)
	Else []*S // optional else branch
	Raw  bool // a line that is not a statement of its own (case label): never a directive target, ends ranges
	Term bool // break; / fallthrough; closing a case clause: takes next-line and trailing comments, ends ranges
	// filled by layout
	start, end int
}

func simple(l string) *S                { return &S{Line: l} }
func block(head string, body ...*S) *S  { return &S{Line: head, Body: append([]*S{}, body...)} }
func (s *S) withElse(body ...*S) *S     { s.Else = append([]*S{}, body...); return s }
func undef(n int) *S                    { return simple(fmt.Sprintf("set req.http.A%d = undefined.var%d;", n, n)) }
func nocall(n int) *S                   { return simple(fmt.Sprintf("call nosuch%d;", n)) }
func badarg(n int) *S                   { return simple(fmt.Sprintf("set req.http.B%d = std.itoa(\"x%d\");", n, n)) }
func arity(n int) *S                    { return simple(fmt.Sprintf("set req.http.C%d = std.itoa(%d, 2, 3);", n, n)) }
func okstmt(n int) *S                   { return simple(fmt.Sprintf("set req.http.Ok%d = \"v\";", n)) }
func raw(l string) *S                   { return &S{Line: l, Raw: true} }
func unusedDecl(n int) *S               { return simple(fmt.Sprintf("declare local var.unused%d STRING;", n)) }
func term(l string) *S                  { return &S{Line: l, Term: true} } // break; / fallthrough; of a case clause
func sameDecl() *S                      { return simple("declare local var.tmp STRING;") }
func infoerr(n int) *S                  { return simple(fmt.Sprintf("error 9%d;", 1000+n)) }

type program struct {
	name string
	subs [][]*S // bodies of sub vcl_recv, sub other...
}

func programs() []program {
	return []program{
		{"flat", [][]*S{{undef(1), okstmt(2), nocall(3), badarg(4), arity(5), undef(6)}}},
		{"first-last", [][]*S{{undef(1), okstmt(2), undef(3)}}},
		{"if-nested", [][]*S{{undef(1), block("if (req.http.X == \"1\") {", nocall(2), undef(3)), badarg(4)}}},
		{"if-else", [][]*S{{block("if (req.http.X == \"1\") {", undef(1), okstmt(2)).withElse(nocall(3), undef(4)), undef(5)}}},
		{"deep", [][]*S{{block("if (req.http.X == \"1\") {", block("if (req.http.Y == \"2\") {", undef(1), nocall(2)), undef(3)), undef(4)}}},
		{"bare-block", [][]*S{{undef(1), block("{", nocall(2), undef(3)), undef(4)}}},
		{"two-subs", [][]*S{{undef(1), nocall(2)}, {undef(3), badarg(4), undef(5)}}},
		{"after-region", [][]*S{{okstmt(1), undef(2), okstmt(3), undef(4), okstmt(5)}, {undef(6)}}},
		{"cond-error", [][]*S{{block("if (req.http.X == 1) {", undef(1)), undef(2)}}},
		{"info", [][]*S{{infoerr(1), undef(2), infoerr(3)}}},
		{"empty-block", [][]*S{{undef(1), block("if (req.http.X == \"1\") {"), undef(2)}}},
		{"empty-blocks", [][]*S{{undef(1), nocall(2), block("if (req.http.X == \"1\") {", badarg(3)).withElse(), undef(4), block("{"), arity(5)}, {undef(6), block("if (req.http.Y == \"2\") {"), undef(7)}}},
		{"same-rule-twice", [][]*S{{arity(1), arity(2), badarg(3), arity(4)}}},
		// statements inside switch cases
		{"switch", [][]*S{{undef(1), block("switch (req.http.X) {", raw("case \"1\":"), undef(2), nocall(3), term("break;"), raw("case \"2\":"), badarg(4), term("fallthrough;"), raw("default:"), undef(5), term("break;")), undef(6)}, {arity(7), unusedDecl(8)}}},
		// diagnostics that are reported for a statement after its subroutine has been walked (unused local)
		{"late-diagnostic", [][]*S{{unusedDecl(1), undef(2), unusedDecl(3), okstmt(4)}, {unusedDecl(5), undef(6)}}},
		// the same local name declared (and unused) in two subroutines and in two branches
		{"late-same-name", [][]*S{{sameDecl(), undef(1), block("if (req.http.X == \"1\") {", unusedDecl(2))}, {block("if (resp.http.X == \"1\") {", sameDecl()).withElse(unusedDecl(3)), undef(4)}}},
	}
}

// layout renders the program and assigns line spans; extra(line) comments are
// inserted by the caller through the hooks.
type rendered struct {
	lines []string
	all   []*S   // every statement
	blks  [][]*S // every block (list of sibling statements)
	close map[*S]int // unused
}

func layout(p program) *rendered {
	r := &rendered{}
	emit := func(l string) int { r.lines = append(r.lines, l); return len(r.lines) }
	var doBlock func(ss []*S, ind string)
	doBlock = func(ss []*S, ind string) {
		r.blks = append(r.blks, ss)
		for _, s := range ss {
			r.all = append(r.all, s)
			s.start = emit(ind + s.Line)
			if s.Body != nil {
				doBlock(s.Body, ind+"  ")
				if s.Else != nil {
					emit(ind + "} else {")
					doBlock(s.Else, ind+"  ")
				}
				s.end = emit(ind + "}")
			} else {
				s.end = s.start
			}
		}
	}
	for i, body := range p.subs {
		name := "vcl_recv"
		if i > 0 {
			name = fmt.Sprintf("vcl_deliver")
		}
		emit("sub " + name + " {")
		if i == 0 {
			emit("  #FASTLY recv")
		} else {
			emit("  #FASTLY deliver")
		}
		doBlock(body, "  ")
		emit("}")
	}
	return r
}

// Directive is one ignore comment (or a start/end pair).
type Directive struct {
	Form   string   `json:"form"`   // next-line | trailing | range
	From   int      `json:"from"`   // base line covered from
	To     int      `json:"to"`     // base line covered to
	At     int      `json:"at"`     // base line before which the (start) comment is inserted / on which the trailing comment sits
	EndAt  int      `json:"end_at"` // range: base line before which the end comment is inserted
	EndPos string   `json:"end_pos"` // before-next | last-in-block
	Rules  []string `json:"rules"`
	Marker string   `json:"marker"` // # | // | /*
	Target string   `json:"target"` // simple | compound
}

// Case is a base program plus directives.
type Case struct {
	Program string      `json:"program"`
	Base    string      `json:"base"`
	With    string      `json:"with"`
	Dirs    []Directive `json:"directives"`
	// Style: "" | crlf (both programs with CRLF line ends) | trailing-ws (blank and tab behind the text of every # and // directive)
	Style string `json:"style,omitempty"`
}

func comment(marker, text string) string {
	switch marker {
	case "#":
		return "# " + text
	case "/*":
		return "/* " + text + " */"
	}
	return "// " + text
}

func ruleSuffix(rules []string) string {
	if len(rules) == 0 {
		return ""
	}
	return " " + strings.Join(rules, ", ")
}

// apply inserts the directives into the base lines.
func apply(base []string, dirs []Directive) string {
	before := map[int][]string{}
	trailing := map[int][]string{}
	for _, d := range dirs {
		ind := leadingSpace(base[d.At-1])
		switch d.Form {
		case "next-line":
			before[d.At] = append(before[d.At], ind+comment(d.Marker, "falco-ignore-next-line"+ruleSuffix(d.Rules)))
		case "trailing":
			trailing[d.At] = append(trailing[d.At], comment(d.Marker, "falco-ignore"+ruleSuffix(d.Rules)))
		case "range":
			before[d.At] = append(before[d.At], ind+comment(d.Marker, "falco-ignore-start"+ruleSuffix(d.Rules)))
			eind := leadingSpace(base[d.EndAt-1])
			if d.EndPos == "last-in-block" {
				eind += "  "
			}
			// the end comment is inserted before EndAt; keep it in front of start comments placed at the same line
			before[d.EndAt] = append([]string{eind + comment(d.Marker, "falco-ignore-end"+ruleSuffix(d.Rules))}, before[d.EndAt]...)
		}
	}
	var out []string
	for i, l := range base {
		out = append(out, before[i+1]...)
		if t := trailing[i+1]; len(t) > 0 {
			l += " " + strings.Join(t, " ")
		}
		out = append(out, l)
	}
	return strings.Join(out, "\n") + "\n"
}

func leadingSpace(l string) string { return l[:len(l)-len(strings.TrimLeft(l, " "))] }

func placements(r *rendered) []Directive {
	var ds []Directive
	for _, s := range r.all {
		if s.Raw {
			continue
		}
		tgt := "simple"
		if s.Body != nil {
			tgt = "compound"
		}
		ds = append(ds, Directive{Form: "next-line", From: s.start, To: s.end, At: s.start, Target: tgt})
		if s.Body == nil {
			ds = append(ds, Directive{Form: "trailing", From: s.start, To: s.start, At: s.start, Target: tgt})
		}
	}
	for _, b := range r.blks {
		for i := range b {
			if b[i].Raw || b[i].Term {
				continue
			}
			for j := i; j < len(b); j++ {
				if b[j].Raw || b[j].Term {
					break // ranges stay within one run of statements (e.g. one case clause, without its break)
				}
				if j+1 >= len(b) && len(b) > 0 && hasRaw(b) {
					continue // no "last comment of the block" placement inside a switch: it would sit after break
				}
				// covers b[i]..b[j]; end comment before b[j+1] or as last comment of the block
				d := Directive{Form: "range", From: b[i].start, To: b[j].end, At: b[i].start, Target: "range"}
				if j+1 < len(b) {
					d.EndAt, d.EndPos = b[j+1].start, "before-next"
				} else {
					d.EndAt, d.EndPos = b[j].end+1, "last-in-block"
				}
				ds = append(ds, d)
			}
		}
	}
	return ds
}

// rangesIntoEmptyBlocks: a range that starts before a statement and whose end comment is the only thing inside a
// later, empty block of the same statement list (`if (..) { // falco-ignore-end }`).
func rangesIntoEmptyBlocks(r *rendered) []Directive {
	var ds []Directive
	for _, b := range r.blks {
		for j := range b {
			// the block closed by the statement's last brace is empty: the body when there is no else, the else otherwise
			emptyLast := b[j].Body != nil && ((b[j].Else == nil && len(b[j].Body) == 0) || (b[j].Else != nil && len(b[j].Else) == 0))
			if b[j].Raw || !emptyLast {
				continue
			}
			for i := 0; i <= j; i++ {
				if b[i].Raw {
					continue
				}
				ds = append(ds, Directive{Form: "range", From: b[i].start, To: b[j].end, At: b[i].start, EndAt: b[j].end, EndPos: "last-in-block", Target: "range-into-empty-block"})
			}
		}
	}
	return ds
}

func hasRaw(b []*S) bool {
	for _, s := range b {
		if s.Raw {
			return true
		}
	}
	return false
}

func rulesOf(diags []lintx.Diag, from, to int, inside bool) []string {
	seen := map[string]bool{}
	var out []string
	for _, d := range diags {
		in := d.Line >= from && d.Line <= to
		if in == inside && d.Rule != "" && !seen[d.Rule] {
			seen[d.Rule] = true
			out = append(out, d.Rule)
		}
	}
	sort.Strings(out)
	return out
}

func gen12(tier string, emit func(Case)) {
	thorough := tier == "thorough"
	for _, p := range programs() {
		r := layout(p)
		base := strings.Join(r.lines, "\n") + "\n"
		bl := lintx.Lint(base, nil)
		if bl.ParseErr != nil {
			panic(fmt.Sprintf("C12 base program %s does not parse: %v", p.name, bl.ParseErr))
		}
		pls := append(placements(r), rangesIntoEmptyBlocks(r)...)
		variants := func(d Directive) []Directive {
			var out []Directive
			in := rulesOf(bl.Diags, d.From, d.To, true)
			outR := rulesOf(bl.Diags, d.From, d.To, false)
			lists := [][]string{nil}
			if len(in) > 0 {
				lists = append(lists, []string{in[0]})
			}
			if len(outR) > 0 {
				lists = append(lists, []string{outR[0]})
			}
			if len(in) > 1 {
				lists = append(lists, []string{in[0], in[1]})
			} else if len(in) == 1 && len(outR) > 0 {
				lists = append(lists, []string{in[0], outR[0]})
			}
			for _, l := range lists {
				for _, m := range []string{"//", "#", "/*"} {
					v := d
					v.Rules, v.Marker = l, m
					out = append(out, v)
				}
			}
			return out
		}
		for _, d := range pls {
			for _, v := range variants(d) {
				emit(Case{Program: p.name, Base: base, With: apply(r.lines, []Directive{v}), Dirs: []Directive{v}})
				// the same file with CRLF line ends, and with white space behind the directive
				emit(Case{Program: p.name, Base: base, With: apply(r.lines, []Directive{v}), Dirs: []Directive{v}, Style: "crlf"})
				if v.Marker != "/*" {
					emit(Case{Program: p.name, Base: base, With: apply(r.lines, []Directive{v}), Dirs: []Directive{v}, Style: "trailing-ws"})
				}
			}
		}
		// pairs (rule lists: none / first covered rule; one marker)
		short := func(d Directive) []Directive {
			vs := []Directive{}
			a := d
			a.Marker = "//"
			vs = append(vs, a)
			if in := rulesOf(bl.Diags, d.From, d.To, true); len(in) > 0 {
				b := d
				b.Marker, b.Rules = "//", []string{in[0]}
				vs = append(vs, b)
			}
			return vs
		}
		for i, d1 := range pls {
			for j, d2 := range pls {
				if j <= i {
					continue
				}
				// two trailing comments on one line, or two range-ends at the same spot, are one comment position: skip identical spots
				if d1.Form == d2.Form && d1.At == d2.At && d1.EndAt == d2.EndAt {
					continue
				}
				for _, v1 := range short(d1) {
					for _, v2 := range short(d2) {
						emit(Case{Program: p.name, Base: base, With: apply(r.lines, []Directive{v1, v2}), Dirs: []Directive{v1, v2}})
					}
				}
			}
		}
		// stacked directives: two (thorough: also three) next-line comments in front of the same statement, with different rule lists
		for _, d := range pls {
			if d.Form != "next-line" {
				continue
			}
			in := rulesOf(bl.Diags, d.From, d.To, true)
			outR := rulesOf(bl.Diags, d.From, d.To, false)
			lists := [][]string{nil}
			for _, r := range in {
				lists = append(lists, []string{r})
			}
			if len(outR) > 0 {
				lists = append(lists, []string{outR[0]})
			}
			for i, l1 := range lists {
				for j, l2 := range lists {
					if i == j {
						continue
					}
					v1, v2 := d, d
					v1.Marker, v1.Rules = "//", l1
					v2.Marker, v2.Rules = "#", l2
					emit(Case{Program: p.name, Base: base, With: apply(r.lines, []Directive{v1, v2}), Dirs: []Directive{v1, v2}})
					if thorough {
						for k, l3 := range lists {
							if k != i && k != j {
								v3 := d
								v3.Marker, v3.Rules = "//", l3
								emit(Case{Program: p.name, Base: base, With: apply(r.lines, []Directive{v1, v2, v3}), Dirs: []Directive{v1, v2, v3}})
							}
						}
					}
				}
			}
		}
		if thorough {
			for i := 0; i < len(pls); i++ {
				for j := i + 1; j < len(pls); j++ {
					for k := j + 1; k < len(pls); k++ {
						a, b, c := pls[i], pls[j], pls[k]
						a.Marker, b.Marker, c.Marker = "//", "#", "/*"
						emit(Case{Program: p.name, Base: base, With: apply(r.lines, []Directive{a, b, c}), Dirs: []Directive{a, b, c}})
					}
				}
			}
		}
	}
}

// covered: next-line and trailing comments cover their statement (union of covers).
// Ranges follow the documented sequential semantics (docs/linter.md): start adds
// (all rules or the listed ones), end with rule names removes those, and
// "falco-ignore-end without rule names specified re-enables all rules".
func covered(d lintx.Diag, dirs []Directive) bool {
	type ev struct {
		line  int
		end   bool
		rules []string
	}
	var evs []ev
	for _, dir := range dirs {
		if dir.Form == "range" {
			evs = append(evs, ev{dir.At, false, dir.Rules}, ev{dir.EndAt, true, dir.Rules})
			continue
		}
		if d.Line < dir.From || d.Line > dir.To {
			continue
		}
		if len(dir.Rules) == 0 {
			return true
		}
		for _, r := range dir.Rules {
			if r == d.Rule {
				return true
			}
		}
	}
	// comments inserted before the same line: ends are written before starts (see apply)
	sort.SliceStable(evs, func(i, j int) bool {
		if evs[i].line != evs[j].line {
			return evs[i].line < evs[j].line
		}
		return evs[i].end && !evs[j].end
	})
	all, rules := 0, map[string]int{}
	for _, e := range evs {
		if e.line > d.Line {
			break
		}
		switch {
		case !e.end && len(e.rules) == 0:
			all++
		case !e.end:
			for _, r := range e.rules {
				rules[r]++
			}
		case len(e.rules) == 0:
			all, rules = 0, map[string]int{}
		default:
			for _, r := range e.rules {
				if rules[r] > 0 {
					rules[r]--
				}
			}
		}
	}
	return all > 0 || rules[d.Rule] > 0 && d.Rule != ""
}

func posClass(d Directive) string {
	s := d.Form
	switch d.Form {
	case "next-line":
		s += "@" + d.Target
	case "range":
		s += "@end-" + d.EndPos
	}
	if len(d.Rules) == 0 {
		s += "/all-rules"
	} else {
		s += "/rule-list"
	}
	return s
}

func run(c Case) engine.Result {
	r := run0(c)
	if c.Style != "" {
		for i := range r.Findings {
			r.Findings[i].Class += "|" + c.Style
		}
	}
	return r
}

func run0(c Case) engine.Result {
	switch c.Style {
	case "crlf":
		c.Base, c.With = strings.ReplaceAll(c.Base, "\n", "\r\n"), strings.ReplaceAll(c.With, "\n", "\r\n")
	case "trailing-ws":
		ls := strings.Split(c.With, "\n")
		for i, l := range ls {
			if strings.Contains(l, "falco-ignore") && !strings.HasSuffix(l, "*/") {
				ls[i] = l + " \t"
			}
		}
		c.With = strings.Join(ls, "\n")
	}
	bl := lintx.Lint(c.Base, nil)
	wl := lintx.Lint(c.With, nil)
	if wl.ParseErr != nil {
		return engine.Result{NonTrivial: true, Outcome: "rejected", Findings: []engine.Finding{{
			Class: "rejected|" + dirsClass(c.Dirs), What: fmt.Sprintf("program with ignore comments does not parse: %v", wl.ParseErr), Detail: c.With}}}
	}
	if wl.PanicSite != "" && bl.PanicSite == "" {
		return engine.Result{NonTrivial: true, Outcome: "panic", Findings: []engine.Finding{{
			Class: "panic@" + wl.PanicSite + "|" + dirsClass(c.Dirs), What: "linter panics with ignore comments: " + wl.PanicMsg, Detail: c.With}}}
	}
	var want []string
	nCovered := 0
	for _, d := range bl.Diags {
		if covered(d, c.Dirs) {
			nCovered++
			continue
		}
		want = append(want, d.Key())
	}
	sort.Strings(want)
	got := wl.Keys()
	res := engine.Result{NonTrivial: nCovered > 0, Outcome: fmt.Sprintf("suppressed-%d", min(nCovered, 3))}
	if strings.Join(want, "\n") == strings.Join(got, "\n") {
		return res
	}
	// classify: leak (something outside the cover vanished) / under-suppression (covered one still reported) / other
	mw, mg := map[string]int{}, map[string]int{}
	for _, k := range want {
		mw[k]++
	}
	for _, k := range got {
		mg[k]++
	}
	var leaked, kept []string
	for k, n := range mw {
		if mg[k] < n {
			leaked = append(leaked, k)
		}
	}
	for k, n := range mg {
		if mw[k] < n {
			kept = append(kept, k)
		}
	}
	sort.Strings(leaked)
	sort.Strings(kept)
	kind := "leak"
	if len(leaked) == 0 {
		kind = "under-suppression"
	} else if len(kept) > 0 {
		kind = "leak+under-suppression"
	}
	res.Outcome = kind
	res.NonTrivial = true
	res.Findings = []engine.Finding{{
		Class:  kind + "|" + dirsClass(c.Dirs),
		What:   fmt.Sprintf("ignore comments %s in program %s: diagnostics outside the cover that vanished: %q; covered diagnostics still reported: %q", describe(c.Dirs), c.Program, leaked, kept),
		Detail: c.With,
	}}
	return res
}

func dirsClass(ds []Directive) string {
	var ps []string
	for _, d := range ds {
		ps = append(ps, posClass(d))
	}
	sort.Strings(ps)
	rel := ""
	if len(ds) == 2 {
		a, b := ds[0], ds[1]
		switch {
		case a.From <= b.From && a.To >= b.To || b.From <= a.From && b.To >= a.To:
			rel = "|nested"
		case a.To < b.From || b.To < a.From:
			rel = "|disjoint"
		default:
			rel = "|overlapping"
		}
	}
	return strings.Join(ps, " & ") + rel
}

func describe(ds []Directive) string {
	var ps []string
	for _, d := range ds {
		ps = append(ps, fmt.Sprintf("%s lines %d-%d rules %v marker %s", d.Form, d.From, d.To, d.Rules, d.Marker))
	}
	return strings.Join(ps, "; ")
}

func init() {
	engine.Register(engine.Spec[Case]{
		ID:    "C12",
		Level: "exploration",
		Rule: "16 base programs with 3-8 lint errors (several rules, nested in if/else/bare blocks and switch cases, first/last statement, two subroutines, after the covered region, diagnostics reported late such as unused locals); every placement of one directive (next-line before every statement incl. compound ones, trailing on every simple statement, start/end around every contiguous range of every block with the end before the next statement or as the last comment of the block) x {no rule list, a covered rule, an uncovered rule, two rules} x {//, #, /* */}; every pair of placements (thorough: every triple); two (thorough: three) next-line comments stacked in front of one statement with different rule lists; oracle: diagnostics(with) = diagnostics(base) minus those located on covered lines (and of a listed rule), compared as multisets of (severity, rule, message); non-trivial = at least one diagnostic is covered; distinct = distinct program text Round 3: next-line and trailing directives on break; / fallthrough;, a program with the same unused local name in two subroutines and two branches. Round 4: every single-directive case again with CRLF line ends and with a blank and a tab behind the directive text.",
		Gen:  gen12,
		Key:  func(c Case) string { return c.With + "\x00" + c.Style },
		Run:  run,
		Assumptions: []string{"a diagnostic is located in a statement when its reported line lies within the statement's line span in the base program (one statement per line, compound statements span their block)"},
	})
}
