// Package c05: linter, reference tables and simulator agree on types, scopes and signatures.
package c05

import (
	"fmt"
	"os"
	"regexp"
	"sort"
	"strings"

	"verif/mc/engine"
	"verif/mc/lintx"
	"verif/mc/ref/tables"
	"verif/mc/sim"
)

// Case is one cell instantiated as a program.
type Case struct {
	Kind    string   `json:"kind"`    // variable | function | statement | operator
	Cell    string   `json:"cell"`    // human-readable cell id
	Scopes  []string `json:"scopes"`  // lower-case scope names of the subroutine
	Decls   string   `json:"decls"`   // declarations the use needs
	Prelude string   `json:"prelude"` // statements before the use (locals)
	Use     string   `json:"use"`     // the use statement (one line)
	// Allowed per the reference tables: "yes" | "no" | "?" (no table available: only accepted => executes is checked)
	Allowed string `json:"allowed"`
	Class   string `json:"class"` // class-key stem
	// Before: a whole subroutine printed in front of the one under test (e.g. a legal use of the same variable in another scope:
	// what one subroutine established must not decide what the next one may do)
	Before string `json:"before,omitempty"`
}

const decls = `backend be1 { .host = "example.com"; .port = "80"; }
backend be2 { .host = "example.org"; .port = "80"; }
acl ac1 { "10.0.0.0"/8; }
table tb1 { "k": "v" }
ratecounter rc1 { }
penaltybox pb1 { }
director dr1 random { { .backend = be1; .weight = 1; } }
`

func program(c Case) (src string, useLine int) {
	var b strings.Builder
	b.WriteString(c.Decls)
	b.WriteString(c.Before)
	name := "custom_sub"
	if len(c.Scopes) == 1 {
		name = "vcl_" + c.Scopes[0]
	} else {
		fmt.Fprintf(&b, "// @scope: %s\n", strings.Join(c.Scopes, ", "))
	}
	fmt.Fprintf(&b, "sub %s {\n", name)
	if len(c.Scopes) == 1 {
		fmt.Fprintf(&b, "  #FASTLY %s\n", c.Scopes[0])
	}
	if c.Prelude != "" {
		b.WriteString(c.Prelude)
	}
	useLine = strings.Count(b.String(), "\n") + 1
	b.WriteString("  " + c.Use + "\n}\n")
	if len(c.Scopes) > 1 {
		// make the custom subroutine used from its scopes
		for _, s := range c.Scopes {
			fmt.Fprintf(&b, "sub vcl_%s {\n  #FASTLY %s\n  call custom_sub;\n}\n", s, s)
		}
	}
	return b.String(), useLine
}

var localOf = map[string]string{"STRING": "STRING", "INTEGER": "INTEGER", "FLOAT": "FLOAT", "BOOL": "BOOL", "RTIME": "RTIME", "TIME": "TIME", "IP": "IP", "BACKEND": "BACKEND", "REQBACKEND": "BACKEND"}

var literalOf = map[string]string{"STRING": `"x"`, "INTEGER": "1", "FLOAT": "1.5", "BOOL": "true", "RTIME": "1s", "REQBACKEND": "be1", "BACKEND": "be1", "IP": `"127.0.0.1"`}

func concreteName(n string) string {
	n = strings.ReplaceAll(n, "%any%", "X-Any")
	if strings.HasPrefix(n, "backend.X-Any") {
		n = strings.Replace(n, "X-Any", "be1", 1)
	}
	if strings.HasPrefix(n, "director.X-Any") {
		n = strings.Replace(n, "X-Any", "dr1", 1)
	}
	if strings.HasPrefix(n, "ratecounter.X-Any") {
		n = strings.Replace(n, "X-Any", "rc1", 1)
	}
	return n
}

func scopeSets() [][]string {
	var out [][]string
	lower := func(s string) string { return strings.ToLower(s) }
	for _, s := range tables.Scopes {
		out = append(out, []string{lower(s)})
	}
	for i := range tables.Scopes {
		for j := i + 1; j < len(tables.Scopes); j++ {
			out = append(out, []string{lower(tables.Scopes[i]), lower(tables.Scopes[j])})
		}
	}
	return out
}

func allowedIn(on []string, scopes []string) bool {
	for _, s := range scopes {
		if !tables.Has(on, strings.ToUpper(s)) {
			return false
		}
	}
	return true
}

func yn(b bool) string {
	if b {
		return "yes"
	}
	return "no"
}

var argOf = map[string]string{"STRING": `"abc"`, "INTEGER": "1", "FLOAT": "0.5", "BOOL": "true", "RTIME": "1s", "TIME": "now", "IP": "client.ip",
	"ID": "sha256", "TABLE": "tb1", "ACL": "ac1", "BACKEND": "be1", "STRING_LIST": `"a"`}

var idArgs = map[string][]string{
	"crypto.":                 {"aes128", "cbc", "pkcs7"},
	"header.":                 {"req"},
	"querystring.":            nil,
	"ratelimit.check_rate":    {"rc1", "pb1"},
	"ratelimit.check_rates":   {"rc1", "rc1", "pb1"},
	"ratelimit.ratecounter_increment": {"rc1"},
	"ratelimit.penaltybox_add":        {"pb1"},
	"ratelimit.penaltybox_has":        {"pb1"},
	"digest.hmac":             nil,
}

func genVariables(emit func(Case)) {
	vars, err := tables.Variables()
	if err != nil {
		panic(err)
	}
	for _, v := range vars {
		name := concreteName(v.Name)
		for _, ss := range scopeSets() {
			al := allowedIn(v.On, ss)
			// get
			if lt, ok := localOf[v.Get]; ok {
				emit(Case{Kind: "variable", Cell: fmt.Sprintf("get %s in %v", v.Name, ss), Scopes: ss, Decls: decls,
					Prelude: fmt.Sprintf("  declare local var.zz %s;\n", lt), Use: fmt.Sprintf("set var.zz = %s;", name),
					Allowed: yn(al), Class: "variable get " + v.Name})
				// the same read in a scope that does not allow it, after a subroutine of an allowed scope has read (and, where
				// possible, set) the variable
				if !al && len(ss) == 1 && len(v.On) > 0 {
					first := strings.ToLower(v.On[0])
					if first != ss[0] {
						before := fmt.Sprintf("sub vcl_%s {\n  #FASTLY %s\n  declare local var.yy %s;\n  set var.yy = %s;\n}\n", first, first, lt, name)
						emit(Case{Kind: "variable", Cell: fmt.Sprintf("get %s in %v after a read in %s", v.Name, ss, first), Scopes: ss, Decls: decls, Before: before,
							Prelude: fmt.Sprintf("  declare local var.zz %s;\n", lt), Use: fmt.Sprintf("set var.zz = %s;", name),
							Allowed: "no", Class: "variable get " + v.Name})
					}
				}
			}
			// set
			if lit, ok := literalOf[v.Set]; ok || v.Set == "" {
				allowed := al && v.Set != ""
				if v.Set == "" {
					// writing a read-only variable must be rejected wherever it is readable
					if lit2, ok2 := literalOf[v.Get]; ok2 {
						emit(Case{Kind: "variable", Cell: fmt.Sprintf("set(read-only) %s in %v", v.Name, ss), Scopes: ss, Decls: decls,
							Use: fmt.Sprintf("set %s = %s;", name, lit2), Allowed: "no", Class: "variable set-readonly " + v.Name})
					}
				} else {
					emit(Case{Kind: "variable", Cell: fmt.Sprintf("set %s in %v", v.Name, ss), Scopes: ss, Decls: decls,
						Use: fmt.Sprintf("set %s = %s;", name, lit), Allowed: yn(allowed), Class: "variable set " + v.Name})
				}
			}
			// unset
			emit(Case{Kind: "variable", Cell: fmt.Sprintf("unset %s in %v", v.Name, ss), Scopes: ss, Decls: decls,
				Use: fmt.Sprintf("unset %s;", name), Allowed: yn(al && v.Unset), Class: "variable unset " + v.Name})
		}
	}
}

func genFunctions(emit func(Case)) {
	fns, err := tables.Functions()
	if err != nil {
		panic(err)
	}
	for _, f := range fns {
		sigs := f.Arguments
		if len(sigs) == 0 {
			sigs = [][]string{{}}
		}
		if f.Return == "ACL" || f.Return == "REGEX" {
			continue // only usable as the right operand of a match; not instantiated
		}
		for si, sig := range sigs {
			var args []string
			ids := 0
			for _, t := range sig {
				a := argOf[t]
				if t == "ID" {
					// longest matching prefix (map iteration order must not matter)
					best := ""
					for pre := range idArgs {
						if strings.HasPrefix(f.Name, pre) && len(pre) > len(best) {
							best = pre
						}
					}
					if list := idArgs[best]; best != "" && ids < len(list) {
						a = list[ids]
					}
					ids++
				}
				if a == "" {
					a = `"x"`
				}
				args = append(args, a)
			}
			call := fmt.Sprintf("%s(%s)", f.Name, strings.Join(args, ", "))
			for _, ss := range scopeSets() {
				c := Case{Kind: "function", Cell: fmt.Sprintf("call %s/%d in %v", f.Name, si, ss), Scopes: ss, Decls: decls,
					Allowed: yn(allowedIn(f.On, ss)), Class: "function " + f.Name}
				if lt, ok := localOf[f.Return]; ok {
					c.Prelude = fmt.Sprintf("  declare local var.zz %s;\n", lt)
					c.Use = fmt.Sprintf("set var.zz = %s;", call)
				} else {
					c.Use = call + ";"
				}
				emit(c)
			}
		}
	}
}

func genStatements(emit func(Case)) {
	stmts := []struct{ name, use string }{
		{"restart", "restart;"}, {"error", "error 601;"}, {"error-arg", "error 601 \"msg\";"}, {"esi", "esi;"},
		{"synthetic", "synthetic \"body\";"}, {"synthetic.base64", "synthetic.base64 \"Ym9keQ==\";"},
	}
	for _, a := range []string{"lookup", "pass", "error", "restart", "hash", "deliver", "fetch", "deliver_stale", "hit_for_pass"} {
		stmts = append(stmts, struct{ name, use string }{"return(" + a + ")", "return(" + a + ");"})
	}
	for _, st := range stmts {
		for _, ss := range scopeSets() {
			emit(Case{Kind: "statement", Cell: fmt.Sprintf("%s in %v", st.name, ss), Scopes: ss, Decls: decls, Use: st.use, Allowed: "?", Class: "statement " + st.name})
		}
	}
}

var assignOps = []string{"=", "+=", "-=", "*=", "/=", "%=", "|=", "&=", "^=", "<<=", ">>=", "rol=", "ror=", "&&=", "||="}
var cmpOps = []string{"==", "!=", "<", ">", "<=", ">=", "~", "!~"}

type operand struct{ typ, form, expr, prelude string }

func operands() []operand {
	var out []operand
	lit := map[string]string{"INTEGER": "2", "FLOAT": "2.5", "STRING": `"s"`, "BOOL": "true", "RTIME": "2s", "IP": `"192.0.2.1"`}
	for _, t := range []string{"INTEGER", "FLOAT", "STRING", "BOOL", "RTIME", "TIME", "IP", "BACKEND", "ACL"} {
		if l, ok := lit[t]; ok {
			out = append(out, operand{t, "literal", l, ""})
		}
		switch t {
		case "ACL":
			out = append(out, operand{t, "literal", "ac1", ""})
		case "BACKEND":
			out = append(out, operand{t, "literal", "be2", ""})
			out = append(out, operand{t, "predefined", "req.backend", ""})
		default:
			init := lit[t]
			if t == "TIME" {
				init = "now"
			}
			out = append(out, operand{t, "local", "var.o", fmt.Sprintf("  declare local var.o %s;\n  set var.o = %s;\n", t, init)})
		}
	}
	// a sign in front of a numeric operand: the value of a negated variable is not a literal
	for _, t := range []string{"INTEGER", "FLOAT", "RTIME"} {
		out = append(out, operand{t, "negated-local", "-var.o", fmt.Sprintf("  declare local var.o %s;\n  set var.o = %s;\n", t, lit[t])})
		out = append(out, operand{t, "negated-literal", "-" + lit[t], ""})
	}
	out = append(out, operand{"INTEGER", "negated-predefined", "-req.restarts", ""}, operand{"RTIME", "negated-predefined", "-req.grace", ""})
	out = append(out,
		operand{"STRING", "predefined", "req.url", ""}, operand{"INTEGER", "predefined", "req.restarts", ""}, operand{"BOOL", "predefined", "req.is_ssl", ""},
		operand{"RTIME", "predefined", "req.grace", ""}, operand{"TIME", "predefined", "now", ""}, operand{"IP", "predefined", "client.ip", ""},
		operand{"FLOAT", "predefined", "math.PI", ""}, operand{"header", "predefined", "req.http.Other", ""})
	return out
}

type target struct{ typ, name, prelude string }

func targets() []target {
	var out []target
	init := map[string]string{"INTEGER": "7", "FLOAT": "1.5", "STRING": `"t"`, "BOOL": "true", "RTIME": "90s", "TIME": "now", "IP": `"10.0.0.1"`, "BACKEND": "be1"}
	for _, t := range []string{"INTEGER", "FLOAT", "STRING", "BOOL", "RTIME", "TIME", "IP", "BACKEND"} {
		out = append(out, target{t, "var.t", fmt.Sprintf("  declare local var.t %s;\n  set var.t = %s;\n", t, init[t])})
	}
	out = append(out, target{"header", "req.http.Target", "  set req.http.Target = \"7\";\n"})
	out = append(out, target{"ACL", "ac1", ""})
	return out
}

// golden is the committed snapshot of the linter's operator matrix (see ref/data/assigntable.tsv).
func loadGolden() map[string]string {
	m := map[string]string{}
	b, err := os.ReadFile(dataPath())
	if err != nil {
		return m
	}
	for _, l := range strings.Split(string(b), "\n") {
		if l == "" || strings.HasPrefix(l, "#") {
			continue
		}
		p := strings.Split(l, "\t")
		if len(p) >= 2 {
			m[p[0]] = p[1]
		}
	}
	return m
}

func dataPath() string {
	d := os.Getenv("VERIF_DIR")
	if d == "" {
		d = "/verif"
	}
	return d + "/mc/ref/data/assigntable.tsv"
}

func genOperators(emit func(Case)) {
	golden := loadGolden()
	for _, tg := range targets() {
		for _, op := range assignOps {
			for _, o := range operands() {
				if tg.typ == "ACL" && op != "=" {
					continue
				}
				cell := fmt.Sprintf("assign %s %s %s %s", tg.typ, op, o.typ, o.form)
				al := golden[cell]
				if al == "" {
					al = "?"
				}
				emit(Case{Kind: "operator", Cell: cell, Scopes: []string{"recv"}, Decls: decls, Prelude: tg.prelude + o.prelude,
					Use: fmt.Sprintf("set %s %s %s;", tg.name, op, o.expr), Allowed: al, Class: "operator " + cell})
			}
		}
	}
	for _, l := range operands() {
		for _, op := range cmpOps {
			for _, r := range operands() {
				lp, rp := l.prelude, r.prelude
				le, re := l.expr, r.expr
				if l.form == "local" || l.form == "negated-local" {
					lp = strings.ReplaceAll(lp, "var.o", "var.l")
					le = strings.ReplaceAll(le, "var.o", "var.l")
				}
				cell := fmt.Sprintf("compare %s %s %s %s %s", l.typ, l.form, op, r.typ, r.form)
				al := golden[cell]
				if al == "" {
					al = "?"
				}
				emit(Case{Kind: "operator", Cell: cell, Scopes: []string{"recv"}, Decls: decls, Prelude: lp + rp,
					Use: fmt.Sprintf("if (%s %s %s) { set req.http.Taken = \"1\"; }", le, op, re), Allowed: al, Class: "operator " + cell})
			}
		}
	}
}

func gen05(tier string, emit func(Case)) {
	genOperators(emit)
	genStatements(emit)
	genFunctions(emit)
	genVariables(emit)
}

// contract-class runtime errors: what the linter's acceptance promises cannot happen
var contractRe = regexp.MustCompile(`(?i)undefined variable|is not defined|could not access|not available in|only available|is not callable|cannot call|cannot be called|expects \d+ arguments|expects at least \d+ arg|argument.*type|type mismatch|invalid assignment|could not use|cannot (assign|set|unset)|could not (assign|set|unset)|read-only|readonly|unexpected .* operator|invalid .* type|could not specify|not defined in`)

func run(c Case) engine.Result {
	src, useLine := program(c)
	lr := lintx.Lint(src, nil)
	if lr.ParseErr != nil {
		return engine.Result{Skipped: true}
	}
	if lr.PanicSite != "" {
		return engine.Result{NonTrivial: true, Outcome: "lint-panic", Findings: []engine.Finding{{Class: "lint-panic@" + lr.PanicSite + "|" + c.Kind, What: fmt.Sprintf("linter panics on cell %s: %s", c.Cell, lr.PanicMsg), Detail: src}}}
	}
	var errs []string
	for _, d := range lr.Diags {
		if d.Severity == "Error" && d.Line == useLine {
			errs = append(errs, d.Message)
		}
	}
	accepted := len(errs) == 0
	res := engine.Result{NonTrivial: true}
	if os.Getenv("VERIF_C05_SNAPSHOT") != "" && c.Kind == "operator" {
		fmt.Printf("SNAP\t%s\t%s\n", c.Cell, yn(accepted))
	}
	switch {
	case c.Allowed == "yes" && !accepted:
		res.Findings = append(res.Findings, engine.Finding{Class: "linter-rejects-allowed|" + c.Class + scopeShape(c),
			What: fmt.Sprintf("the reference tables allow `%s` (%s) but the linter rejects it: %q", c.Use, c.Cell, errs), Detail: src})
	case c.Allowed == "no" && accepted:
		res.Findings = append(res.Findings, engine.Finding{Class: "linter-accepts-disallowed|" + c.Class + scopeShape(c),
			What: fmt.Sprintf("the reference tables do not allow `%s` (%s) but the linter accepts it", c.Use, c.Cell), Detail: src})
	}
	res.Outcome = "rejected"
	if accepted {
		res.Outcome = "accepted+executes"
		// accepted => executes, in every scope of the subroutine
		for _, sc := range c.Scopes {
			probe := "sub probe {\n" + c.Prelude + "  " + c.Use + "\n}\n"
			var err error
			var pan string
			func() {
				defer func() {
					if r := recover(); r != nil {
						pan = fmt.Sprint(r)
					}
				}()
				_, err = sim.RunProbeIn(c.Decls+"sub vcl_recv { }\n", probe, sc)
			}()
			if pan != "" {
				res.Findings = append(res.Findings, engine.Finding{Class: "accepted-but-crashes|" + c.Class,
					What: fmt.Sprintf("the linter accepts `%s` (%s) but the simulator crashes in %s: %s", c.Use, c.Cell, sc, pan), Detail: src})
				res.Outcome = "accepted+crashes"
				break
			}
			if err != nil {
				msg := rootMsg(err)
				if contractRe.MatchString(msg) {
					res.Findings = append(res.Findings, engine.Finding{Class: "accepted-but-fails|" + c.Class + "|" + errShape(msg),
						What: fmt.Sprintf("the linter accepts `%s` (%s) but the simulator fails in scope %s: %s", c.Use, c.Cell, sc, msg), Detail: src})
					res.Outcome = "accepted+contract-error"
					break
				}
				res.Outcome = "accepted+value-error(inconclusive)"
			}
		}
	}
	res.Findings = dedup(res.Findings)
	return res
}

func scopeShape(c Case) string {
	if len(c.Scopes) == 1 {
		return "|single-scope"
	}
	return "|two-scopes"
}

func rootMsg(err error) string {
	s := err.Error()
	if i := strings.Index(s, "\n"); i > 0 {
		s = s[:i]
	}
	return s
}

func errShape(msg string) string {
	m := contractRe.FindString(msg)
	return strings.ToLower(m)
}

func dedup(fs []engine.Finding) []engine.Finding {
	seen := map[string]bool{}
	var out []engine.Finding
	for _, f := range fs {
		if !seen[f.Class] {
			seen[f.Class] = true
			out = append(out, f)
		}
	}
	sort.Slice(out, func(i, j int) bool { return out[i].Class < out[j].Class })
	return out
}

func init() {
	engine.Register(engine.Spec[Case]{
		ID:    "C05",
		Level: "exploration",
		Rule: "two finite products enumerated completely: (A) {15 assignment operators} x 10 target kinds x 27 operands (9 types x {literal, local, predefined}) and {8 comparison operators} x 27 x 27 operands; (B) every entry of predefined.yml x {get, set, set of a read-only variable, unset} and every entry of builtin.yml x every signature and the scope-restricted statements (restart, error, esi, synthetic, synthetic.base64, 9 return actions) x the 9 scopes and all 36 two-scope annotations. Each cell is a minimal program; the linter's ERROR diagnostics on the use line are compared with the YAML tables read from /repo at run time (B) or with the committed operator matrix (A), and every accepted cell is executed in each of its scopes on the real interpreter: no crash and no error of the contract classes (undefined / out of scope / not callable / argument count or type / assignment type). non-trivial = every cell that parses; distinct = distinct program Round 3: the operands include signed literals, signed locals and signed predefined variables (INTEGER / FLOAT / RTIME). Round 4: every single-scope read that the tables do not allow is repeated behind a subroutine of an allowed scope that reads the same variable.",
		Gen:  gen05,
		Key:  func(c Case) string { p, _ := program(c); return p },
		Run:  run,
		Init: func(string) { sim.InstallStub() },
		Assumptions: []string{
			"the Fastly assignment type table (an external spreadsheet) is not available offline: product A is compared with mc/ref/data/assigntable.tsv, a snapshot of the pinned tree's linter matrix reviewed for plausibility, so for A the check decides drift from that snapshot plus accepted => executes",
			"value-dependent runtime errors are counted as inconclusive, not as violations",
			"for scope-restricted statements no reference table exists in the repository: only accepted => executes is decided",
		},
	})
}
