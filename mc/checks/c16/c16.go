// Package c16: `fmt --write` never damages the file it rewrites.
// Fault and crash enumeration on the real binary under strace / prlimit.
package c16

import (
	"bytes"
	"encoding/json"
	"fmt"
	"os"
	"os/exec"
	"path/filepath"
	"regexp"
	"sort"
	"strconv"
	"strings"
	"syscall"
	"time"

	"verif/mc/engine"
)

// Case is one run of `falco fmt -w` with one fault, crash point or file-size limit.
type Case struct {
	File    string `json:"file"`    // file kind
	Mode    string `json:"mode"`    // clean | fault | crash | fsize | readonly-file | readonly-dir
	Syscall string `json:"syscall"` // fault / crash: syscall name
	When    int    `json:"when"`    // fault / crash: the N-th invocation (per thread)
	Errno   string `json:"errno"`   // fault: injected error
	Limit   int    `json:"limit"`   // fsize: RLIMIT_FSIZE in bytes
	// history mode: the first run (crashed at Syscall/When) works on File, then the user replaces the content by Second and runs again
	Second string `json:"second,omitempty"`
	// multi mode: file kinds formatted by ONE invocation `falco fmt -w a.vcl b.vcl ...` (Syscall/When: optional crash point)
	Files []string `json:"files,omitempty"`
	// the target named on the command line is a symbolic link to real/f.vcl
	Link bool `json:"link,omitempty"`
}

func bigFile() string {
	var b strings.Builder
	for i := 0; i < 120; i++ {
		fmt.Fprintf(&b, "sub sub_%03d {\nset req.http.Header-%03d   =   \"value %03d\" req.http.Other;\nif(req.http.A){unset req.http.B;}\n}\n", i, i, i)
	}
	return b.String()
}

var fileKinds = []struct{ name, content string }{
	{"small", "sub vcl_recv {\nset req.http.A   =   \"a\";\n}\n"},
	{"formatted", "sub vcl_recv {\n  set req.http.A = \"a\";\n}\n"},
	{"no-trailing-newline", "acl a { \"10.0.0.1\"; }"},
	{"with-comments", "// leading\nsub vcl_recv { # c\n  #FASTLY recv\n  esi; // t\n}\n"},
	{"snippet", "set req.http.A = \"a\";\nunset req.http.B;\n"},
	{"invalid", "sub vcl_recv {\n  set req.http.A = ;\n}\n"},
	{"empty", ""},
	// text that means something to a formatting function: %-escapes, strftime patterns, a lone percent sign
	{"percent", "sub vcl_recv {\nset req.http.A   =   \"%2F\" strftime({\"%Y-%m-%d %s %d %v %%\"}, now) \"%20\";\nset req.http.B = \"100%25 %41\";\n}\n"},
	{"big", bigFile()},
}

func kind(name string) string {
	for _, k := range fileKinds {
		if k.name == name {
			return k.content
		}
	}
	panic(name)
}

func falcoBin() string {
	if p := os.Getenv("VERIF_FALCO"); p != "" {
		return p
	}
	return "/var/tmp/falco"
}

const hangBackstop = 20 * time.Second

const traceSet = "trace=%file,write,read,close,fsync,fdatasync,ftruncate,fchmod,pwrite64"

var faultable = []string{"openat", "write", "close", "read", "rename", "renameat", "renameat2", "fsync", "fdatasync", "ftruncate", "fchmod", "fchmodat", "chmod", "unlinkat", "newfstatat", "pwrite64"}

var errnos = map[string][]string{
	"write":   {"ENOSPC", "EIO", "EDQUOT", "EINTR", "EFBIG"},
	"pwrite64": {"ENOSPC", "EIO"},
	"openat":  {"EACCES", "EROFS", "ENOSPC", "EMFILE", "EINTR"},
	"close":   {"EIO", "ENOSPC", "EDQUOT"}, // not EINTR: strace skips the real close and Go's poller then waits forever (a harness artefact)
	"read":    {"EIO", "EINTR"},
	"default": {"EIO", "EACCES", "ENOSPC"},
}

type call struct {
	name string
	line string
}

var callRe = regexp.MustCompile(`^\d+\s+([a-z0-9_]+)\(`)

func parseLog(b []byte) []call {
	var out []call
	for _, l := range strings.Split(string(b), "\n") {
		if m := callRe.FindStringSubmatch(l); m != nil {
			out = append(out, call{m[1], l})
		}
	}
	return out
}

func runFalco(dir string, pre []string, args ...string) (exit int, killed bool, out string) {
	argv := append(append([]string{}, pre...), falcoBin())
	argv = append(argv, args...)
	cmd := exec.Command(argv[0], argv[1:]...)
	cmd.Dir = dir
	cmd.Env = []string{"HOME=" + dir, "PATH=/usr/bin:/bin", "GOMAXPROCS=1", "TZ=UTC", "NO_COLOR=1", "TERM=xterm"}
	cmd.SysProcAttr = &syscall.SysProcAttr{Setpgid: true}
	var buf bytes.Buffer
	cmd.Stdout, cmd.Stderr = &buf, &buf
	if err := cmd.Start(); err != nil {
		return -1, false, err.Error()
	}
	done := make(chan error, 1)
	go func() { done <- cmd.Wait() }()
	var err error
	select {
	case err = <-done:
	case <-time.After(hangBackstop):
		// a fault injected into the Go runtime's own bookkeeping can wedge the process: that is a
		// crash point like any other (the process never finishes); kill the whole group
		syscall.Kill(-cmd.Process.Pid, syscall.SIGKILL)
		<-done
		if os.Getenv("VERIF_C16_DEBUG") != "" {
			fmt.Fprintln(os.Stderr, "HANG:", strings.Join(argv, " "))
		}
		return -1, true, buf.String() + "\n[verif: killed after the hang backstop]"
	}
	if ee, ok := err.(*exec.ExitError); ok {
		exit = ee.ExitCode()
		if exit < 0 || exit > 128 {
			killed = true
		}
	} else if err != nil {
		exit = -1
	}
	return exit, killed, buf.String()
}

// history records the syscalls of a clean `fmt -w` run for a file kind.
func history(fileKind string) map[string]int {
	dir, _ := os.MkdirTemp(engine.Scratch(), "c16-h-")
	defer os.RemoveAll(dir)
	os.WriteFile(filepath.Join(dir, "f.vcl"), []byte(kind(fileKind)), 0o644)
	runFalco(dir, []string{"strace", "-f", "-qq", "-o", filepath.Join(dir, "log"), "-e", traceSet}, "fmt", "-w", "f.vcl")
	b, _ := os.ReadFile(filepath.Join(dir, "log"))
	counts := map[string]int{}
	for _, c := range parseLog(b) {
		counts[c.name]++
	}
	return counts
}

// histories are recorded once per run by the parent (the Go runtime's own syscalls vary a
// little from run to run) and published to the workers through a file
func histories() map[string]map[string]int {
	if p := os.Getenv("VERIF_C16_HIST"); p != "" {
		if b, err := os.ReadFile(p); err == nil {
			var m map[string]map[string]int
			if json.Unmarshal(b, &m) == nil {
				return m
			}
		}
	}
	m := map[string]map[string]int{}
	for _, fk := range fileKinds {
		m[fk.name] = history(fk.name)
	}
	return m
}

func gen16(tier string, emit func(Case)) {
	hist := histories()
	genMulti(hist, emit)
	emit0 := emit
	for _, fk := range fileKinds {
		// small files are also formatted through a symbolic link (clean, every fault, crash point and file-size limit)
		linked := fk.name == "small" || fk.name == "with-comments"
		emit := func(c Case) {
			emit0(c)
			if linked && c.Mode != "history" && c.Mode != "readonly-file" && c.Mode != "readonly-dir" {
				c.Link = true
				emit0(c)
			}
		}
		emit(Case{File: fk.name, Mode: "clean"})
		emit(Case{File: fk.name, Mode: "readonly-file"})
		emit(Case{File: fk.name, Mode: "readonly-dir"})
		h := hist[fk.name]
		names := make([]string, 0, len(h))
		for n := range h {
			names = append(names, n)
		}
		sort.Strings(names)
		for _, sc := range names {
			isFaultable := false
			for _, f := range faultable {
				if f == sc {
					isFaultable = true
				}
			}
			if !isFaultable {
				continue
			}
			max := h[sc] + 1
			// the dynamic loader and the Go runtime open/read dozens of files before main: every
			// one of them is still enumerated for the file-modifying calls; for the others the
			// last 12 invocations (where the command's own work is) are enough
			from := 1
			if (sc == "openat" || sc == "read" || sc == "newfstatat" || sc == "close") && max > 14 && tier != "thorough" {
				from = max - 13
			}
			for n := from; n <= max; n++ {
				es := errnos[sc]
				if es == nil {
					es = errnos["default"]
				}
				for _, e := range es {
					emit(Case{File: fk.name, Mode: "fault", Syscall: sc, When: n, Errno: e})
				}
				emit(Case{File: fk.name, Mode: "crash", Syscall: sc, When: n})
			}
		}
		// also fault the calls a safer implementation would use, should they appear
		for _, sc := range []string{"rename", "renameat", "renameat2", "fsync", "fchmod", "fchmodat", "unlinkat", "ftruncate"} {
			if h[sc] == 0 {
				continue
			}
		}
		// histories: a run killed at each call that touches the directory or a temporary file, then an edit that makes the
		// output shorter (or longer), then a normal run: the second run must not be affected by what the first one left behind
		if fk.name == "with-comments" || fk.name == "big" || fk.name == "small" {
			for _, sc := range []string{"openat", "write", "fsync", "fchmod", "fchmodat", "renameat", "rename", "renameat2", "close", "unlinkat"} {
				for n := 1; n <= h[sc]+1; n++ {
					if (sc == "openat" || sc == "close") && h[sc] > 14 && n < h[sc]-12 {
						continue
					}
					for _, second := range []string{"small", "no-trailing-newline", "big"} {
						if second != fk.name {
							emit(Case{File: fk.name, Mode: "history", Syscall: sc, When: n, Second: second})
						}
					}
				}
			}
		}
		// every file-size limit
		n := len(fk.content)
		step := 1
		if n > 400 && tier != "thorough" {
			step = 97
		}
		for k := 0; k <= n+8; k += step {
			emit(Case{File: fk.name, Mode: "fsize", Limit: k})
		}
	}
}

// runMulti: several targets in one invocation; every file must end as its own original or its own formatted text.
func runMulti(c Case) engine.Result {
	dir, err := os.MkdirTemp(engine.Scratch(), "c16-")
	if err != nil {
		panic(err)
	}
	defer os.RemoveAll(dir)
	var names []string
	for i, k := range c.Files {
		n := fmt.Sprintf("f%d.vcl", i)
		names = append(names, n)
		os.WriteFile(filepath.Join(dir, n), []byte(kind(k)), 0o644)
	}
	expected := map[string][]byte{}
	ok := map[string]bool{}
	for _, n := range names {
		cmd := exec.Command(falcoBin(), "fmt", n)
		cmd.Dir = dir
		cmd.Env = []string{"HOME=" + dir, "PATH=/usr/bin:/bin", "GOMAXPROCS=1", "NO_COLOR=1", "TERM=xterm"}
		var so bytes.Buffer
		cmd.Stdout = &so
		if cmd.Run() == nil {
			expected[n], ok[n] = so.Bytes(), true
		}
	}
	var pre []string
	if c.Syscall != "" {
		pre = []string{"strace", "-f", "-qq", "-o", filepath.Join(dir, ".log"), "-e", traceSet, "-e", fmt.Sprintf("inject=%s:signal=SIGKILL:when=%d", c.Syscall, c.When)}
	}
	exit, killed, out := runFalco(dir, pre, append([]string{"fmt", "-w"}, names...)...)
	res := engine.Result{NonTrivial: true, Outcome: fmt.Sprintf("multi exit=%v killed=%v", exit != 0, killed)}
	for i, n := range names {
		after, rerr := os.ReadFile(filepath.Join(dir, n))
		orig := []byte(kind(c.Files[i]))
		switch {
		case rerr != nil, !bytes.Equal(after, orig) && !(ok[n] && bytes.Equal(after, expected[n])):
			res.Findings = append(res.Findings, engine.Finding{Class: fmt.Sprintf("damaged|multi|target %d of %d", i+1, len(names)),
				What:   fmt.Sprintf("`falco fmt -w %s` (kinds %v, exit %d, killed %v): %s holds neither its original bytes nor its formatted text (%d bytes; original %d, formatted %d)", strings.Join(names, " "), c.Files, exit, killed, n, len(after), len(orig), len(expected[n])),
				Detail: map[string]string{"output": trunc(out), "after": trunc(string(after))}})
		case !killed && exit == 0 && ok[n] && !bytes.Equal(after, expected[n]):
			res.Findings = append(res.Findings, engine.Finding{Class: fmt.Sprintf("succeeded-but-unchanged|multi|target %d of %d", i+1, len(names)),
				What: fmt.Sprintf("`falco fmt -w %s` reported success but %s was not rewritten", strings.Join(names, " "), n)})
		}
	}
	return res
}

// runHistory: first run killed at a crash point, then the content is replaced, then a normal run.
func runHistory(c Case) engine.Result {
	dir, err := os.MkdirTemp(engine.Scratch(), "c16-")
	if err != nil {
		panic(err)
	}
	defer os.RemoveAll(dir)
	target := filepath.Join(dir, "f.vcl")
	os.WriteFile(target, []byte(kind(c.File)), 0o644)
	runFalco(dir, []string{"strace", "-f", "-qq", "-o", filepath.Join(dir, ".log"), "-e", traceSet, "-e", fmt.Sprintf("inject=%s:signal=SIGKILL:when=%d", c.Syscall, c.When)}, "fmt", "-w", "f.vcl")
	os.Remove(filepath.Join(dir, ".log"))
	second := []byte(kind(c.Second))
	os.WriteFile(target, second, 0o644)
	var expected []byte
	baseOK := false
	{
		cmd := exec.Command(falcoBin(), "fmt", "f.vcl")
		cmd.Dir = dir
		cmd.Env = []string{"HOME=" + dir, "PATH=/usr/bin:/bin", "GOMAXPROCS=1", "NO_COLOR=1", "TERM=xterm"}
		var so bytes.Buffer
		cmd.Stdout = &so
		if cmd.Run() == nil {
			baseOK, expected = true, so.Bytes()
		}
	}
	exit, killed, out := runFalco(dir, nil, "fmt", "-w", "f.vcl")
	after, rerr := os.ReadFile(target)
	res := engine.Result{NonTrivial: true, Outcome: fmt.Sprintf("history exit=%v", exit != 0)}
	good := rerr == nil && (bytes.Equal(after, second) || (baseOK && bytes.Equal(after, expected)))
	if !good || (exit == 0 && baseOK && !bytes.Equal(after, expected)) {
		res.Findings = append(res.Findings, engine.Finding{Class: fmt.Sprintf("damaged|history|after a run killed at %s", c.Syscall),
			What:   fmt.Sprintf("a `fmt -w` of a %s file was killed at %s call #%d, the content was replaced by the %s file and `fmt -w` run again (exit %d, killed %v): the file holds neither the new original nor its formatted text (%d bytes; original %d, formatted %d)", c.File, c.Syscall, c.When, c.Second, exit, killed, len(after), len(second), len(expected)),
			Detail: map[string]string{"output": trunc(out), "after": trunc(string(after))}})
	}
	return res
}

// genMulti: every ordered selection of 2 and 3 of four file kinds in one invocation, without fault and killed at every rename
func genMulti(hist map[string]map[string]int, emit func(Case)) {
	ks := []string{"small", "no-trailing-newline", "with-comments", "invalid"}
	var sels [][]string
	for _, a := range ks {
		for _, b := range ks {
			if a != b {
				sels = append(sels, []string{a, b})
				for _, c := range ks {
					if c != a && c != b {
						sels = append(sels, []string{a, b, c})
					}
				}
			}
		}
	}
	sels = append(sels, []string{"big", "small", "with-comments"}, []string{"small", "big"}, []string{"small", "small", "small"})
	for _, sel := range sels {
		emit(Case{Mode: "multi", Files: sel})
		for _, sc := range []string{"renameat", "rename", "renameat2"} {
			if hist["small"][sc] == 0 {
				continue
			}
			for n := 1; n <= len(sel); n++ {
				emit(Case{Mode: "multi", Files: sel, Syscall: sc, When: n})
			}
		}
	}
}

func run(c Case) engine.Result {
	if c.Mode == "multi" {
		return runMulti(c)
	}
	if c.Mode == "history" {
		return runHistory(c)
	}
	dir, err := os.MkdirTemp(engine.Scratch(), "c16-")
	if err != nil {
		panic(err)
	}
	defer func() {
		os.Chmod(dir, 0o755)
		os.RemoveAll(dir)
	}()
	orig := []byte(kind(c.File))
	target := filepath.Join(dir, "f.vcl")
	if c.Link {
		os.Mkdir(filepath.Join(dir, "real"), 0o755)
		os.WriteFile(filepath.Join(dir, "real", "f.vcl"), orig, 0o644)
		if err := os.Symlink(filepath.Join("real", "f.vcl"), target); err != nil {
			panic(err)
		}
	} else {
		os.WriteFile(target, orig, 0o644)
	}
	// expected output: what `falco fmt FILE` prints (or failure)
	var expected []byte
	baseOK := false
	{
		cmd := exec.Command(falcoBin(), "fmt", "f.vcl")
		cmd.Dir = dir
		cmd.Env = []string{"HOME=" + dir, "PATH=/usr/bin:/bin", "GOMAXPROCS=1", "NO_COLOR=1", "TERM=xterm"}
		var so, se bytes.Buffer
		cmd.Stdout, cmd.Stderr = &so, &se
		if err := cmd.Run(); err == nil {
			baseOK = true
			expected = so.Bytes()
		}
	}
	var exit int
	var killed bool
	var out string
	injected := ""
	switch c.Mode {
	case "clean":
		exit, killed, out = runFalco(dir, nil, "fmt", "-w", "f.vcl")
	case "readonly-file":
		os.Chmod(target, 0o444)
		// root ignores permission bits: make the open for writing fail the way a read-only file does
		exit, killed, out = runFalco(dir, []string{"strace", "-f", "-qq", "-o", filepath.Join(dir, ".log"), "-e", traceSet, "-P", target, "-e", "inject=openat:error=EACCES:when=2+"}, "fmt", "-w", "f.vcl")
	case "readonly-dir":
		exit, killed, out = runFalco(dir, []string{"strace", "-f", "-qq", "-o", filepath.Join(dir, ".log"), "-e", traceSet, "-e", "inject=openat,rename,renameat,renameat2,unlinkat,mkdirat:error=EROFS:when=" + strconv.Itoa(1) + "+"}, "fmt", "-w", "f.vcl")
		// (every open fails: the command cannot even read; the file must stay as it was)
	case "fault":
		exit, killed, out = runFalco(dir, []string{"strace", "-f", "-qq", "-o", filepath.Join(dir, ".log"), "-e", traceSet, "-e", fmt.Sprintf("inject=%s:error=%s:when=%d", c.Syscall, c.Errno, c.When)}, "fmt", "-w", "f.vcl")
	case "crash":
		exit, killed, out = runFalco(dir, []string{"strace", "-f", "-qq", "-o", filepath.Join(dir, ".log"), "-e", traceSet, "-e", fmt.Sprintf("inject=%s:signal=SIGKILL:when=%d", c.Syscall, c.When)}, "fmt", "-w", "f.vcl")
	case "fsize":
		exit, killed, out = runFalco(dir, []string{"prlimit", "--fsize=" + strconv.Itoa(c.Limit)}, "fmt", "-w", "f.vcl")
	}
	if b, err := os.ReadFile(filepath.Join(dir, ".log")); err == nil {
		for _, cl := range parseLog(b) {
			if strings.Contains(cl.line, "(INJECTED)") || strings.Contains(cl.line, "+++ killed") {
				injected = cl.name + " " + role(cl.line, dir)
				break
			}
		}
		if bytes.Contains(b, []byte("+++ killed by SIGKILL")) {
			killed = true
		}
	}
	os.Chmod(dir, 0o755)
	after, rerr := os.ReadFile(target)
	res := engine.Result{NonTrivial: true}
	state := "other"
	switch {
	case rerr != nil:
		state = "missing"
	case bytes.Equal(after, orig) && baseOK && bytes.Equal(after, expected):
		state = "original=formatted"
	case bytes.Equal(after, orig):
		state = "original"
	case baseOK && bytes.Equal(after, expected):
		state = "formatted"
	}
	leftovers := 0
	if ents, err := os.ReadDir(dir); err == nil {
		for _, e := range ents {
			if e.Name() != "f.vcl" && e.Name() != ".log" {
				leftovers++
			}
		}
	}
	res.Outcome = fmt.Sprintf("%s exit=%v killed=%v", state, exit != 0, killed)
	where := c.Mode
	switch c.Mode {
	case "fault", "crash":
		where = c.Mode + " at " + injectedOr(injected, c.Syscall)
	case "fsize":
		where = "fsize " + region(c.Limit, len(expected))
	}
	fileClass := c.File
	if c.Link {
		fileClass += "@symlink"
	}
	fail := func(kindOf, what string) {
		res.Findings = append(res.Findings, engine.Finding{
			Class:  fmt.Sprintf("%s|%s|%s", kindOf, fileClass, where),
			What:   fmt.Sprintf("file kind %s, %s (exit %d, killed %v): %s; file now holds %d bytes (%s), original %d bytes, formatted %d bytes", c.File, describe(c), exit, killed, what, len(after), state, len(orig), len(expected)),
			Detail: map[string]string{"output": trunc(out), "after": trunc(string(after))},
		})
	}
	switch {
	case state == "other" || state == "missing":
		fail("damaged", "the file holds neither its original bytes nor the formatted text")
	case !killed && exit != 0 && state == "formatted":
		fail("failed-but-changed", "the command reported a failure but the file was rewritten")
	case !killed && exit == 0 && baseOK && state == "original":
		fail("succeeded-but-unchanged", "the command reported success but the file was not rewritten")
	case !killed && exit == 0 && !baseOK:
		fail("succeeded-on-unformattable", "`falco fmt FILE` fails for this file but `fmt -w` reports success")
	}
	if c.Link && len(res.Findings) == 0 {
		// the file the link pointed to is the user's too: original or formatted, never anything else
		if b, err := os.ReadFile(filepath.Join(dir, "real", "f.vcl")); err != nil || !(bytes.Equal(b, orig) || (baseOK && bytes.Equal(b, expected))) {
			fail("damaged-link-target", "the file the symbolic link pointed to holds neither its original bytes nor the formatted text")
		}
	}
	_ = leftovers
	return res
}

func injectedOr(inj, sc string) string {
	if inj != "" {
		return inj
	}
	return sc + " (not reached)"
}

// role classifies the path a traced call refers to.
func role(line, dir string) string {
	switch {
	case strings.Contains(line, dir+"/f.vcl"):
		return "target"
	case strings.Contains(line, dir):
		return "same-directory"
	case strings.Contains(line, "<pipe:") || strings.Contains(line, "(1<") || strings.Contains(line, "(2<") || strings.Contains(line, "write(1") || strings.Contains(line, "write(2"):
		return "stdio"
	}
	return "elsewhere"
}

func region(limit, n int) string {
	switch {
	case limit == 0:
		return "0"
	case limit < n:
		return "below-output-size"
	case limit == n:
		return "exactly-output-size"
	}
	return "above-output-size"
}

func describe(c Case) string {
	switch c.Mode {
	case "fault":
		return fmt.Sprintf("fault %s on %s call #%d", c.Errno, c.Syscall, c.When)
	case "crash":
		return fmt.Sprintf("SIGKILL on entry to %s call #%d", c.Syscall, c.When)
	case "fsize":
		return fmt.Sprintf("file size limit %d bytes", c.Limit)
	}
	return c.Mode
}

func trunc(s string) string {
	if len(s) > 800 {
		return s[:800] + "…"
	}
	return s
}

func init() {
	engine.Register(engine.Spec[Case]{
		ID:    "C16",
		Level: "fault_enumeration",
		Rule: "for 9 file contents (small / already formatted / no trailing newline / with comments / statement-only snippet / syntactically invalid / empty / full of percent signs / 24 KB) the syscall history of the real `falco fmt -w FILE` is recorded under strace; then every invocation number of every file-related syscall in that history (openat, read, write, close, newfstatat, rename*, fsync, fchmod*, unlinkat, ftruncate - the file-modifying ones from the first invocation, the read-only ones over their last 12 invocations in the quick tier) is re-run once per errno of its menu (fault) and once with SIGKILL delivered on entry (crash point = every prefix of the history), plus every RLIMIT_FSIZE from 0 to the output size + 8 (stride 97 for the big file in the quick tier), a target that cannot be opened for writing and a directory in which nothing can be created; the small and the with-comments file are run through all of this a second time with the command-line target being a symbolic link to real/f.vcl (what the link names and what it pointed to are both checked); after each run the file must hold its original bytes or exactly what `falco fmt FILE` prints; non-zero exit => original; zero exit => formatted. non-trivial = every run; distinct = distinct (file kind, fault)",
		Gen:  gen16,
		Key: func(c Case) string {
			return fmt.Sprintf("%s|%s|%s|%d|%s|%d|%s|%s|%v", c.File, c.Mode, c.Syscall, c.When, c.Errno, c.Limit, c.Second, strings.Join(c.Files, ","), c.Link)
		},
		Run:     run,
		Workers: 16,
		Prepare: func(tier string, rep *engine.Report) {
			m := histories()
			b, _ := json.Marshal(m)
			p := filepath.Join(engine.Scratch(), "c16-histories.json")
			os.WriteFile(p, b, 0o644)
			os.Setenv("VERIF_C16_HIST", p)
			rep.Extra["recorded_syscall_histories"] = m
		},
		Assumptions: []string{"crash model: the process dies between two system calls (no power-loss reordering of unsynced blocks)", "strace counts `when=N` per thread; the run's own trace log is inspected for the (INJECTED) marker and the class names the call that was actually hit", "the command runs with GOMAXPROCS=1, HOME and cwd in a private scratch directory"},
	})
}
