// Package c19: the AST codec round-trips every statement; decoding is total.
package c19

import (
	"bytes"
	"crypto/sha1"
	"os"
	"encoding/hex"
	"fmt"
	"runtime/debug"
	"strings"

	"github.com/ysugimoto/falco/v2/ast"
	"github.com/ysugimoto/falco/v2/ast/codec"
	"github.com/ysugimoto/falco/v2/lexer"
	"github.com/ysugimoto/falco/v2/parser"
	"github.com/ysugimoto/falco/v2/zzverif/fuel"

	"verif/mc/engine"
	"verif/mc/gen"
)

// Case is either a round-trip case (Src) or a decoder-totality case (Hex).
type Case struct {
	Kind string `json:"kind"` // roundtrip | decode
	Src  string `json:"src,omitempty"`
	Hex  string `json:"hex,omitempty"`
	From string `json:"from"`
}

func parse(src string) ([]ast.Statement, error) {
	vcl, err := parser.New(lexer.NewFromString(src)).ParseVCL()
	if err != nil {
		return nil, err
	}
	return vcl.Statements, nil
}

var otherProgram = func() []ast.Statement {
	st, err := parse("sub zzzzzzzz { set req.http.ZZZZZZZZ = \"ZZZZZZZZZZZZZZZZ\" req.http.YYYYYYYY; if (req.http.ZZ ~ \"zz\") { restart; } }\nacl zz { \"9.9.9.9\"/32; }\n")
	if err != nil {
		panic(err)
	}
	return st
}()

func bigString(n int) string { return strings.Repeat("a", n) }

func roundTripPrograms(tier string, visit func(src, from string)) {
	bound := 2
	if tier == "thorough" {
		bound = 3
	}
	engine.Explore(bound, 0, func(c *engine.C) {
		root := gen.G{C: c}.Program(1)
		visit(gen.Source(root), "derivation")
	})
	// expression shapes: every operator x operand shapes {identifier, grouped identifier, grouped comparison,
	// logical pair, prefix, call, if-expression} on each side, in every expression context of the statement grammar
	// (the statement derivations above only carry default values)
	shapes := func() []*gen.Node {
		return []*gen.Node{
			gen.Ident("req.http.A"),
			gen.Group(gen.Ident("req.http.B")),
			gen.Group(gen.Infix(gen.Ident("req.http.C"), "==", gen.Str("c"))),
			gen.Group(gen.Infix(gen.Ident("req.http.D"), "||", gen.Ident("req.http.E"))),
			gen.Prefix("!", gen.Ident("req.http.F")),
			gen.Prefix("!", gen.Group(gen.Ident("req.http.G"))),
			gen.Call("std.tolower", gen.Ident("req.http.H")),
			gen.Call("std.tolower", gen.Group(gen.Ident("req.http.I"))),
			gen.IfExpr(gen.Group(gen.Ident("req.http.J")), gen.Str("y"), gen.Str("n")),
			// if() with two and three composite operands
			gen.IfExpr(gen.Ident("req.http.K"), gen.Call("std.toupper", gen.Ident("req.http.L")), gen.Call("std.tolower", gen.Ident("req.http.M"))),
			gen.IfExpr(gen.Infix(gen.Ident("req.http.N"), "==", gen.Str("1")), gen.Call("std.toupper", gen.Ident("req.http.O")), gen.Str("no")),
			gen.IfExpr(gen.Infix(gen.Ident("req.http.P"), "~", gen.Str("^x")), gen.Concat(gen.Str("a"), false, gen.Ident("req.http.Q")), gen.IfExpr(gen.Prefix("!", gen.Ident("req.http.R")), gen.Call("std.itoa", gen.Int(1)), gen.Concat(gen.Str("b"), true, gen.Str("c")))),
			gen.Call("regsub", gen.Call("std.tolower", gen.Ident("req.http.S")), gen.Str("a"), gen.Call("std.toupper", gen.Ident("req.http.T"))),
			gen.Str("s"),
			gen.Int(1),
		}
	}
	contexts := []func(e *gen.Node) *gen.Node{
		func(e *gen.Node) *gen.Node { return gen.Sub("f", gen.Set("req.http.X", "=", e)) },
		func(e *gen.Node) *gen.Node { return gen.Sub("f", gen.If(e, gen.N("EsiStatement"))) },
		func(e *gen.Node) *gen.Node { return gen.Sub("f", gen.Set("req.http.X", "=", gen.Call("fn", e))) },
		func(e *gen.Node) *gen.Node {
			return gen.Sub("f", gen.Set("req.http.X", "=", gen.IfExpr(e, gen.Str("y"), gen.Str("n"))))
		},
		func(e *gen.Node) *gen.Node {
			return gen.Sub("f", gen.N("CallStatement", "Subroutine", gen.Ident("other"), "Arguments", []*gen.Node{e}))
		},
		func(e *gen.Node) *gen.Node { return gen.Sub("f", gen.N("LogStatement", "Value", e)) },
		func(e *gen.Node) *gen.Node {
			return gen.Sub("f", gen.N("ErrorStatement", "Code", gen.Int(600), "Argument", e))
		},
		func(e *gen.Node) *gen.Node {
			return gen.Sub("f", gen.N("FunctionCallStatement", "Function", gen.Ident("std.collect"), "Arguments", []*gen.Node{e}))
		},
	}
	for ci, cx := range contexts {
		for _, a := range shapes() {
			visit(gen.Source(gen.VCL(cx(a))), fmt.Sprintf("expr-shape-ctx%d", ci))
		}
		for _, op := range []string{"||", "&&", "==", "!=", "~", "!~", "<", ">=", "+", "juxt"} {
			for li := range shapes() {
				for ri := range shapes() {
					l, r := shapes()[li], shapes()[ri]
					var e *gen.Node
					switch op {
					case "+":
						e = gen.Concat(l, true, r)
					case "juxt":
						if r.Kind != "Ident" && r.Kind != "String" && r.Kind != "FunctionCallExpression" && r.Kind != "IfExpression" {
							continue // juxtaposition needs a right operand starting with an identifier, string or if
						}
						e = gen.Concat(l, false, r)
					default:
						e = gen.Infix(l, op, r)
					}
					visit(gen.Source(gen.VCL(cx(e))), fmt.Sprintf("expr-shape-ctx%d", ci))
				}
			}
		}
	}
	for _, l := range gen.LiteralTable() {
		if l.H["mayreject"] == "1" {
			continue
		}
		visit(gen.Source(gen.VCL(gen.Sub("f", gen.Set("var.x", "=", l), gen.N("LogStatement", "Value", l.Clone())))), "literal")
	}
	for _, n := range []int{0, 1, 255, 256, 65535, 65536, 70000} {
		visit(gen.Source(gen.VCL(gen.Sub("f", gen.Set("req.http.A", "=", gen.Str(bigString(n)))))), fmt.Sprintf("string-len-%d", n))
		visit(gen.Source(gen.VCL(gen.N("TableDeclaration", "Name", gen.Ident("t"), "ValueType", nil, "Properties", []*gen.Node{
			gen.N("TableProperty", "Key", gen.Str("k"), "Value", gen.LongStr(bigString(n), ""), "HasComma", true)}))), fmt.Sprintf("table-string-len-%d", n))
	}
	// medium-sized subroutines: the encoding crosses the decoder's 4096-byte read buffer once or twice, and a
	// first statement padded by 0..63 bytes shifts every later frame header through every alignment to that boundary
	pads := 64
	for _, n := range []int{130, 260} {
		if n == 260 && tier != "thorough" {
			pads = 16
		}
		for p := 0; p < pads; p++ {
			var body []*gen.Node
			body = append(body, gen.Set("req.http.Pad", "=", gen.Str(strings.Repeat("p", p))))
			for i := 0; i < n; i++ {
				body = append(body, gen.Set("req.http.H", "=", gen.Str(fmt.Sprintf("v%d", i%10))))
			}
			visit(gen.Source(gen.VCL(gen.Sub("mid", body...))), fmt.Sprintf("mid-subroutine-%d-pad-%d", n, p))
		}
	}
	// a subroutine with many statements: nested frame larger than 64 KiB
	var many []*gen.Node
	for i := 0; i < 3000; i++ {
		many = append(many, gen.Set("req.http.Header-Name", "=", gen.Str(fmt.Sprintf("value-%d", i))))
	}
	visit(gen.Source(gen.VCL(gen.Sub("big", many...))), "big-subroutine")
}

// seeds returns one small encoding per node kind.
func seeds() [][]byte {
	var out [][]byte
	seen := map[string]bool{}
	engine.Explore(0, 0, func(c *engine.C) {
		root := gen.G{C: c}.Program(1)
		stmts, err := parse(gen.Source(root))
		if err != nil {
			return
		}
		b, err := codec.NewEncoder().Encodes(stmts)
		if err != nil || seen[string(b)] {
			return
		}
		seen[string(b)] = true
		out = append(out, append([]byte{}, b...)) // the generator never keeps a view of memory the codec may own
	})
	return out
}

var special = []byte{0x00, 0x01, 0x02, 0x03, 0x7f, 0x80, 0xff}

func frameTypes() []byte {
	var ts []byte
	for t := 0; t <= int(codec.VCL)+1; t++ {
		ts = append(ts, byte(t))
	}
	return ts
}

func gen19(tier string, emit func(Case)) {
	roundTripPrograms(tier, func(src, from string) { emit(Case{Kind: "roundtrip", Src: src, From: from}) })
	thorough := tier == "thorough"
	ss := seeds()
	if os.Getenv("VERIF_C19_DEBUG") != "" {
		h := sha1.New()
		for _, x := range ss {
			h.Write(x)
		}
		fmt.Fprintf(os.Stderr, "seeds=%d sha=%x\n", len(ss), h.Sum(nil))
	}
	emitHex := func(b []byte, from string) { emit(Case{Kind: "decode", Hex: hex.EncodeToString(b), From: from}) }
	for si, s := range ss {
		emitHex(s, "seed")
		for i := 0; i < len(s); i++ {
			emitHex(s[:i], "truncate")
			for bit := 0; bit < 8; bit++ {
				m := append([]byte{}, s...)
				m[i] ^= 1 << bit
				emitHex(m, "bitflip")
			}
			subs := special
			if thorough || len(s) < 80 {
				subs = append(append([]byte{}, special...), frameTypes()...)
			}
			for _, v := range subs {
				if s[i] == v {
					continue
				}
				m := append([]byte{}, s...)
				m[i] = v
				emitHex(m, "substitute")
			}
			// delete / insert one byte
			emitHex(append(append([]byte{}, s[:i]...), s[i+1:]...), "delete")
			for _, v := range special {
				m := append(append(append([]byte{}, s[:i]...), v), s[i:]...)
				emitHex(m, "insert")
			}
		}
		// splices prefix(A)+suffix(B) at every position pair on a coarse grid
		for sj, t := range ss {
			if si == sj {
				continue
			}
			step := 3
			if thorough {
				step = 1
			}
			for i := 0; i <= len(s); i += step {
				for j := 0; j <= len(t); j += step * 2 {
					emitHex(append(append([]byte{}, s[:i]...), t[j:]...), "splice")
				}
			}
		}
	}
	// all short byte strings over frame types and boundary bytes
	alpha := append(frameTypes(), 0x7f, 0x80, 0xfe, 0xff)
	maxLen := 3
	var rec func(prefix []byte)
	rec = func(prefix []byte) {
		emitHex(prefix, "bytes")
		if len(prefix) == maxLen {
			return
		}
		for _, a := range alpha {
			rec(append(append([]byte{}, prefix...), a))
		}
	}
	rec(nil)
}

func guard(n int, f func()) (site, kind, msg string) {
	defer func() {
		fuel.Disarm()
		if r := recover(); r != nil {
			msg = fmt.Sprint(r)
			st := string(debug.Stack())
			site = engine.PanicSite(st)
			kind = "panic"
			if strings.HasPrefix(msg, fuel.Sentinel) {
				kind = "nontermination"
				site = codecFrame(st)
			}
		}
	}()
	fuel.Arm(2_000_000 + 5_000*int64(n))
	f()
	return
}

// codecFrame names the innermost decodeXxx/encodeXxx function on the stack (helpers
// like nextFrame tick too, but the loop that does not end is in its caller).
func codecFrame(st string) string {
	first := "?"
	for _, l := range strings.Split(st, "\n") {
		if strings.HasPrefix(l, "github.com/ysugimoto/falco/v2/ast/codec.") {
			if j := strings.LastIndex(l, "("); j > 0 {
				l = l[:j]
			}
			l = strings.TrimPrefix(l, "github.com/ysugimoto/falco/v2/")
			if first == "?" {
				first = l
			}
			if strings.Contains(l, ").decode") || strings.Contains(l, ").encode") || strings.HasSuffix(l, ").Decode") {
				return l
			}
		}
	}
	return first
}

func panicShape(msg string) string {
	for _, p := range []string{"index out of range", "slice bounds out of range", "nil pointer dereference", "makeslice", "interface conversion"} {
		if strings.Contains(msg, p) {
			return p
		}
	}
	if len(msg) > 50 {
		return msg[:50]
	}
	return msg
}

func run(c Case) engine.Result {
	if c.Kind == "decode" {
		b, _ := hex.DecodeString(c.Hex)
		var err error
		var n int
		site, kind, msg := guard(len(b), func() {
			var st []ast.Statement
			st, err = codec.NewDecoder(bytes.NewReader(b)).Decode()
			n = len(st)
		})
		if kind != "" {
			return engine.Result{NonTrivial: true, Outcome: kind, Findings: []engine.Finding{{
				Class: "decode|" + kind + "@" + site + "|" + panicShape(msg),
				What:  fmt.Sprintf("decoding %d bytes (%s of a valid encoding): %s: %s", len(b), c.From, kind, msg),
			}}}
		}
		out := "error"
		if err == nil {
			out = fmt.Sprintf("statements")
			_ = n
		}
		return engine.Result{NonTrivial: len(b) >= 2, Outcome: out}
	}
	stmts, err := parse(c.Src)
	if err != nil {
		return engine.Result{Skipped: true}
	}
	res := engine.Result{NonTrivial: true, Outcome: "equal"}
	add := func(f engine.Finding) {
		for _, g := range res.Findings {
			if g.Class == f.Class {
				return
			}
		}
		res.Findings = append(res.Findings, f)
		res.Outcome = "different"
	}
	// every top-level statement alone, every inner statement alone, and the whole file
	var units []ast.Statement
	units = append(units, stmts...)
	for _, s := range stmts {
		if sd, ok := s.(*ast.SubroutineDeclaration); ok {
			units = append(units, sd.Block.Statements...)
		}
	}
	check := func(label string, in []ast.Statement, enc func() ([]byte, error)) {
		var b []byte
		var eerr error
		site, kind, msg := guard(len(c.Src), func() { b, eerr = enc() })
		kindName := "file"
		if len(in) == 1 {
			kindName = gen.Dump(in[0], nil).Kind
		}
		if kind != "" {
			add(engine.Finding{Class: "encode|" + kind + "@" + site + "|" + kindName, What: fmt.Sprintf("encoding a %s: %s: %s", kindName, kind, msg), Detail: c.Src})
			return
		}
		if eerr != nil {
			add(engine.Finding{Class: "encode-error|" + kindName + "|" + errShape(eerr), What: fmt.Sprintf("encoding a parsed %s fails: %v", kindName, eerr), Detail: c.Src})
			return
		}
		var out []ast.Statement
		var derr error
		site, kind, msg = guard(len(b), func() { out, derr = codec.NewDecoder(bytes.NewReader(b)).Decode() })
		if kind != "" {
			add(engine.Finding{Class: "decode-own|" + kind + "@" + site + "|" + kindName, What: fmt.Sprintf("decoding the encoder's own output for a %s: %s: %s", kindName, kind, msg), Detail: c.Src})
			return
		}
		if derr != nil {
			// an encoding of 64 KiB or more can hold a frame whose 16-bit length wraps (recorded root cause);
			// a smaller one cannot, so it gets its own class
			q := ""
			if len(b) < 65536 {
				q = "|under-64KiB"
			}
			add(engine.Finding{Class: "decode-own-error|" + kindName + "|" + errShape(derr) + q, What: fmt.Sprintf("the encoder's own output for a %s (%d bytes) does not decode: %v", kindName, len(b), derr), Detail: c.Src})
			return
		}
		want := gen.DumpList(in, gen.PresentationFlags)
		got := gen.DumpList(out, gen.PresentationFlags)
		if d := gen.Diff(want, got); d != nil {
			add(engine.Finding{
				Class:  "roundtrip|" + kindName + "|" + tail(d.Path, 2),
				What:   fmt.Sprintf("%s (%s) does not round-trip: at %s want %s, got %s", kindName, label, d.Path, d.Want, d.Got),
				Detail: c.Src,
			})
		}
	}
	for _, u := range units {
		u := u
		check("Encode", []ast.Statement{u}, func() ([]byte, error) { return codec.NewEncoder().Encode(u) })
	}
	check("Encodes", stmts, func() ([]byte, error) { return codec.NewEncoder().Encodes(stmts) })
	// history: the bytes of one encoding must survive later encodings
	check("Encodes-then-other-encodings", stmts, func() ([]byte, error) {
		b, err := codec.NewEncoder().Encodes(stmts)
		if err != nil {
			return b, err
		}
		for i := 0; i < 3; i++ {
			codec.NewEncoder().Encodes(otherProgram)
			for _, o := range otherProgram {
				codec.NewEncoder().Encode(o)
			}
		}
		return b, nil
	})
	if len(units) > 0 {
		u := units[len(units)-1]
		check("Encode-then-other-encodings", []ast.Statement{u}, func() ([]byte, error) {
			b, err := codec.NewEncoder().Encode(u)
			if err != nil {
				return b, err
			}
			for i := 0; i < 3; i++ {
				codec.NewEncoder().Encodes(otherProgram)
			}
			return b, nil
		})
	}
	return res
}

func errShape(err error) string {
	s := err.Error()
	for i, r := range s {
		if r >= '0' && r <= '9' || r == ':' {
			return strings.TrimSpace(s[:i])
		}
	}
	if len(s) > 60 {
		return s[:60]
	}
	return s
}

func tail(path string, n int) string {
	parts := strings.Split(path, ".")
	if len(parts) > n {
		parts = parts[len(parts)-n:]
	}
	return strings.Join(parts, ".")
}

func init() {
	engine.Register(engine.Spec[Case]{
		ID:    "C19",
		Level: "exploration",
		Rule: "round trip: every statement/declaration derivation within 2 (quick) / 3 (thorough) deviations of its default form, the literal table, strings of length 0,1,255,256,65535,65536,70000 and a 3000-statement subroutine; each top-level statement, each statement of a subroutine body (Encode) and the whole file (Encodes) is encoded, decoded and compared field by field (presentation flags excepted). Totality: for one small encoding per node kind every truncation, every single-bit flip, every byte substituted by boundary values and frame-type bytes, every one-byte deletion/insertion, splices of every pair of encodings on a position grid, and all byte strings up to length 3 over frame types and boundary bytes are decoded under a fuel budget. non-trivial = round-trip case that parses, or decode input of >=2 bytes; distinct = distinct source / byte string",
		Gen:  gen19,
		Key:  func(c Case) string { return c.Kind + "\x00" + c.Src + c.Hex },
		Run:  run,
		Assumptions: []string{"comments, positions, Nest and the presentational flags LongString/Delimiter/HasComma/Explicit/HasParenthesis are excepted from the comparison, as the property states",
			"non-termination is decided by a fuel budget (2e6 + 5000 ticks per input byte)"},
	})
}
