package c10

import (
	"fmt"
	"strings"
)

// Flow programs: a generated main VCL whose subroutine `target` is one
// container shape (if / else-if chain / switch / block / functional sub ...)
// whose arms are filled from a leaf alphabet. A fixed driver test sets the
// inputs, calls target and logs every observable. The oracle is differential:
// the driver's verdict, error and logs with coverage instrumentation must be
// those without it.

// input bits
const (
	inC1 = 1 << iota
	inC2
	inC3
	inS   // switch subject: 3 values
	inURL // url: 2 values
)

type frag struct {
	Name  string
	Src   string
	Uses  int    // input mask
	Scope string // "" = recv
	Decl  string // extra top-level declarations needed
}

var traceN int

func trace(tag string) string {
	return fmt.Sprintf("set req.http.Trace = req.http.Trace \"%s\";", tag)
}

// leaves returns the leaf alphabet; n makes local names unique per site.
// Leaf 0 is the default (a plain trace).
func leaves(tag string, n int) []frag {
	l := fmt.Sprintf("var.l%d", n)
	return []frag{
		{Name: "trace", Src: trace(tag)},
		{Name: "log", Src: `log "L` + tag + `=" req.http.Trace;`},
		{Name: "ifexpr", Src: `set req.http.V = if(req.http.C3, "t` + tag + `", "f` + tag + `");`, Uses: inC3},
		{Name: "regroup-then-ifexpr-regex", Src: `set req.http.V = re.group.1 if(req.url ~ "^/(b)", "m", "n");`, Uses: inURL},
		{Name: "ifexpr-regex-group", Src: `set req.http.V = if(req.url ~ "^/(a)", re.group.1, "none");`, Uses: inURL},
		{Name: "ifexpr-regex-group-after", Src: `set req.http.V = if(req.http.C3 ~ "^(1)", "m" re.group.1, "n") re.group.1;`, Uses: inC3},
		{Name: "call-helper", Src: `call helper;` + trace(tag), Uses: inC3},
		{Name: "return", Src: trace(tag) + ` return;`},
		{Name: "return-pass", Src: trace(tag) + ` return(pass);`},
		{Name: "error", Src: trace(tag) + ` error 601 "e` + tag + `";`},
		{Name: "error-ifexpr", Src: trace(tag) + ` error 602 if(req.http.C3, "x", "y");`, Uses: inC3},
		{Name: "error-bare", Src: trace(tag) + ` error;`},
		{Name: "restart", Src: trace(tag) + ` restart;`},
		{Name: "goto", Src: fmt.Sprintf("goto skip%d; %s skip%d:", n, trace("X"), n) + " " + trace(tag)},
		{Name: "local-ifexpr", Src: fmt.Sprintf(`declare local %s STRING; set %s = if(req.http.C3, "a", "b"); set req.http.Trace = req.http.Trace %s;`, l, l, l), Uses: inC3},
		{Name: "fncall", Src: `set req.http.V = fn_helper() "` + tag + `";`, Uses: inC3},
		{Name: "add-ifexpr", Src: `add req.http.Multi = if(req.http.C3, "x", "y");`, Uses: inC3},
		{Name: "unset-inputs", Src: `unset req.http.C2; unset req.http.C3;` + trace(tag), Uses: inC2 | inC3},
		{Name: "esi", Src: `esi; ` + trace(tag)},
		{Name: "ifexpr-nested", Src: `set req.http.V = if(req.http.C2, if(req.http.C3, "tt", "tf"), "f");`, Uses: inC2 | inC3},
		{Name: "callstmt-ifexpr", Src: `header.set(req, "V", if(req.http.C3, "a", "b"));`, Uses: inC3},
		{Name: "ifexpr-check-rate", Src: `set req.http.V = if(ratelimit.check_rate("k", rc1, 60, 10, 10, pb1, 1m), "limited", "ok"); set req.http.V2 = if(ratelimit.check_rate("k", rc1, 60, 10, 10, pb1, 1m), "limited", "ok");`},
		{Name: "log-ifexpr", Src: `log if(req.http.C3, "a", "b") "` + tag + `";`, Uses: inC3},
		{Name: "ifexpr-strtol", Src: `set req.http.V = if(std.strtol("zz", 10) == 0, "z", "nz") fastly.error;`},
		{Name: "if", Src: `if (req.http.C3) { ` + trace(tag+"i") + ` }`, Uses: inC3},
		{Name: "if-chain-terminal", Src: `if (req.http.C3) { ` + trace(tag+"i") + ` return(pass); } else if (req.http.C2) { error 603; } else { ` + trace(tag+"e") + ` }`, Uses: inC2 | inC3},
		{Name: "switch", Src: `switch (req.http.S) { case "1": ` + trace(tag+"1") + ` break; case "2": ` + trace(tag+"2") + ` fallthrough; default: ` + trace(tag+"d") + ` break; }`, Uses: inS},
		{Name: "regsub-ifexpr", Src: `set req.http.V = regsub(req.url, "^/(.)", "\1" if(req.http.C3, "p", "q"));`, Uses: inC3 | inURL},
		{Name: "itoa-ifexpr", Src: `set req.http.V = std.itoa(if(req.http.C3, 1, 2));`, Uses: inC3},
		{Name: "ifexpr-and", Src: `set req.http.V = if(req.http.C3 == "1" && req.http.C2 == "1", "both", "not");`, Uses: inC2 | inC3},
		{Name: "ifexpr-not", Src: `set req.http.V = if(!req.http.C3, "neg", "pos");`, Uses: inC3},
		{Name: "blocks", Src: `{ ` + trace(tag+"b") + ` { ` + trace(tag+"bb") + ` } }`},
		{Name: "synthetic-ifexpr", Src: `synthetic if(req.http.C3, "sa", "sb");`, Uses: inC3, Scope: "error"},
		{Name: "synthetic64-ifexpr", Src: `synthetic.base64 if(req.http.C3, "c2E=", "c2I=");`, Uses: inC3, Scope: "error"},
		{Name: "goto-end", Src: trace(tag) + ` goto done;`},
		// an if() nested in a result of another if(): its condition (with a capture) must only be evaluated when the outer one selects it
		{Name: "ifexpr-nested-regex", Src: `set req.http.V = if(req.http.C2, if(req.http.C3 ~ "^(1)", "m", "n"), "p"); set req.http.G = "after " re.group.1;`, Uses: inC2 | inC3},
		{Name: "ifexpr-nested-regex-else", Src: `set req.http.V = if(req.http.C2, "p", if(req.http.C3 ~ "^(1)", "m", "n")); set req.http.G = "after " re.group.1;`, Uses: inC2 | inC3},
		{Name: "ifexpr-in-call-arg-nested", Src: `set req.http.V = std.toupper(if(req.http.C2, "p", if(req.http.C3 ~ "^(1)", "m", "n"))); set req.http.G = "after " re.group.1;`, Uses: inC2 | inC3},
	}
}

// container shapes; arms are filled by index
type container struct {
	Name string
	Arms int
	Uses int
	Fn   bool // target is reached through a functional subroutine
	Make func(arm []string) string
}

var containers = []container{
	{"seq", 1, 0, false, func(a []string) string { return a[0] }},
	{"seq2", 2, 0, false, func(a []string) string { return a[0] + "\n  " + a[1] }},
	{"if", 1, inC1, false, func(a []string) string { return "if (req.http.C1) { " + a[0] + " }" }},
	{"ifelse", 2, inC1, false, func(a []string) string {
		return "if (req.http.C1) { " + a[0] + " } else { " + a[1] + " }"
	}},
	{"ifelseif", 2, inC1 | inC2, false, func(a []string) string {
		return "if (req.http.C1) { " + a[0] + " } else if (req.http.C2) { " + a[1] + " }"
	}},
	{"ifelseifelse", 3, inC1 | inC2, false, func(a []string) string {
		return "if (req.http.C1) { " + a[0] + " } else if (req.http.C2) { " + a[1] + " } else { " + a[2] + " }"
	}},
	{"chain4", 4, inC1 | inC2 | inC3, false, func(a []string) string {
		return "if (req.http.C1) { " + a[0] + " } elsif (req.http.C2) { " + a[1] + " } elseif (req.http.C3) { " + a[2] + " } else { " + a[3] + " }"
	}},
	{"switch", 3, inS, false, func(a []string) string {
		return `switch (req.http.S) { case "1": ` + a[0] + ` break; case "2": ` + a[1] + ` fallthrough; default: ` + a[2] + ` break; }`
	}},
	{"switchnodefault", 2, inS, false, func(a []string) string {
		return `switch (req.http.S) { case "1": ` + a[0] + ` break; case ~ "^2": ` + a[1] + ` break; }`
	}},
	{"block", 1, 0, false, func(a []string) string { return "{ " + a[0] + " }" }},
	{"nestedthen", 3, inC1 | inC2, false, func(a []string) string {
		return "if (req.http.C1) { if (req.http.C2) { " + a[0] + " } else { " + a[1] + " } } else { " + a[2] + " }"
	}},
	{"nestedelse", 2, inC1 | inC2, false, func(a []string) string {
		return "if (req.http.C1) { " + a[0] + " } else { if (req.http.C2) { " + a[1] + " } }"
	}},
	{"regexchain", 3, inC1 | inC2, false, func(a []string) string {
		return `if (req.http.C1 ~ "^(1)") { set req.http.G = "a" re.group.1; ` + a[0] + ` } else if (req.http.C2 ~ "^(.)") { set req.http.G = "b" re.group.1; ` + a[1] + ` } else { set req.http.G = "c" re.group.1; ` + a[2] + ` }`
	}},
	{"fnsub", 2, inC1 | inC2, true, func(a []string) string {
		return "if (req.http.C1) { " + a[0] + ` return "a"; } else if (req.http.C2) { ` + a[1] + ` return "b"; } return "c";`
	}},
	{"fnret", 1, inC1, true, func(a []string) string {
		return a[0] + ` return if(req.http.C1, "x", "y");`
	}},
	{"iftwice", 2, inC1 | inC2, false, func(a []string) string {
		return "if (req.http.C1) { " + a[0] + " }\n  if (req.http.C2) { " + a[1] + " } else if (req.http.C1) { " + trace("w") + " }"
	}},
}

const flowDecls = `
backend be1 { .host = "example.com"; .port = "80"; }
ratecounter rc1 { }
penaltybox pb1 { }
sub helper {
  if (req.http.C3) {
    set req.http.Trace = req.http.Trace "h1";
    return;
  }
  set req.http.Trace = req.http.Trace "h2";
}
sub fn_helper STRING {
  if (req.http.C3) {
    return "alt";
  } else {
    return "real";
  }
}
`

// Flow is one generated program with its input-use mask.
type Flow struct {
	Shape string
	Main  string
	Uses  int
	Scope string
}

// leafFnSafe: leaves usable inside a functional subroutine (no state returns / error / restart there).
func leafFnSafe(src string) bool {
	for _, bad := range []string{"return", "error", "restart", "synthetic", "esi", "goto done"} {
		if strings.Contains(src, bad) {
			return false
		}
	}
	return true
}

// genFlows enumerates container x arm fillings with at most `devs` arms
// deviating from the default leaf.
func genFlows(devs int, emit func(cont string, arms []int, f Flow)) {
	nLeaves := len(leaves("a", 0))
	for _, k := range containers {
		var rec func(arm int, chosen []int, used int)
		rec = func(arm int, chosen []int, used int) {
			if arm == k.Arms {
				if f, ok := buildFlow(k.Name, chosen); ok {
					emit(k.Name, append([]int{}, chosen...), f)
				}
				return
			}
			rec(arm+1, append(append([]int{}, chosen...), 0), used)
			if used < devs {
				for li := 1; li < nLeaves; li++ {
					rec(arm+1, append(append([]int{}, chosen...), li), used+1)
				}
			}
		}
		rec(0, nil, 0)
	}
}

func containerByName(n string) container {
	for _, k := range containers {
		if k.Name == n {
			return k
		}
	}
	panic("no container " + n)
}

// buildFlow renders the main VCL of (container, leaf per arm).
func buildFlow(cont string, chosen []int) (Flow, bool) {
	k := containerByName(cont)
	arms := make([]string, k.Arms)
	uses := k.Uses
	scope := ""
	var shape []string
	for i, li := range chosen {
		f := leaves(string(rune('a'+i)), i)[li]
		if k.Fn && !leafFnSafe(f.Src) {
			return Flow{}, false
		}
		arms[i] = f.Src
		uses |= f.Uses
		if f.Scope != "" {
			scope = f.Scope
		}
		shape = append(shape, fmt.Sprint(li))
	}
	body := k.Make(arms)
	var b strings.Builder
	b.WriteString(flowDecls)
	if k.Fn {
		b.WriteString("sub fn_target STRING {\n  " + body + "\n}\n")
		b.WriteString("sub target {\n  " + trace("0") + "\n  set req.http.F = fn_target();\n  " + trace("z") + "\n}\n")
	} else {
		b.WriteString("sub target {\n  " + trace("0") + "\n  if (req.http.Host ~ \"^(l)\") { }\n  " + body + "\n  done:\n  " + trace("z") + "\n}\n")
	}
	return Flow{Shape: k.Name + ":" + strings.Join(shape, ","), Main: b.String(), Uses: uses, Scope: scope}, true
}

// inputs enumerates the input vectors over the used bits.
func inputs(uses int) [][]string {
	type dim struct {
		bit  int
		alts []string
	}
	dims := []dim{
		{inC1, []string{"", `set req.http.C1 = "1";`, `set req.http.C1 = "";`}},
		{inC2, []string{"", `set req.http.C2 = "1";`, `set req.http.C2 = "";`}},
		{inC3, []string{"", `set req.http.C3 = "1";`, `set req.http.C3 = "";`}},
		{inS, []string{`set req.http.S = "1";`, `set req.http.S = "2";`, `set req.http.S = "3";`}},
		{inURL, []string{`set req.url = "/a/x";`, `set req.url = "/b";`}},
	}
	out := [][]string{{}}
	for _, d := range dims {
		if uses&d.bit == 0 {
			continue
		}
		var next [][]string
		for _, p := range out {
			for _, a := range d.alts {
				next = append(next, append(append([]string{}, p...), a))
			}
		}
		out = next
	}
	return out
}

// driver builds the test file for one input vector.
func driver(scope string, sets []string) string {
	if scope == "" {
		scope = "recv"
	}
	var b strings.Builder
	b.WriteString("// @scope: " + scope + "\nsub t_drive {\n")
	for _, s := range sets {
		if s != "" {
			b.WriteString("  " + s + "\n")
		}
	}
	b.WriteString("  testing.call_subroutine(\"target\");\n")
	b.WriteString("  log \"T=\" req.http.Trace \" V=\" req.http.V \" V2=\" req.http.V2 \" F=\" req.http.F \" G=\" req.http.G \" M=\" req.http.Multi;\n")
	b.WriteString("  log \"state=\" testing.state \" g1=\" re.group.1 \" restarts=\" req.restarts \" ferr=\" fastly.error \" C2=\" req.http.C2;\n")
	if scope == "error" {
		b.WriteString("  log \"body=\" testing.synthetic_body;\n")
	}
	b.WriteString("  assert.ends_with(req.http.Trace, \"z\");\n")
	b.WriteString("}\n")
	return b.String()
}
