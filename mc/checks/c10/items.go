package c10

import (
	"fmt"
	"strings"
)

// ---------------------------------------------------------------------------
// main VCLs

type mainT struct {
	Name string
	Src  string
	Rich bool // has the declarations the "rich" items need
}

const richDecls = `
backend be1 { .host = "example.com"; .port = "80"; }
backend be2 { .host = "example.org"; .port = "80"; }
acl ac1 { "10.0.0.0"/8; }
table tb1 { "k": "orig", "n": "1" }
ratecounter rc1 { }
penaltybox pb1 { }
`

// richA: lifecycle subroutines written with else-if chains and an if expression.
const richA = richDecls + `
sub helper {
  set req.http.Helper = "real";
}
sub fn_helper STRING {
  if (req.http.Fn) {
    return "alt";
  }
  return "real";
}
sub do_restart {
  restart;
}
sub vcl_recv {
#FASTLY recv
  if (req.http.Mode == "pass") {
    return(pass);
  } else if (req.http.Mode == "err") {
    error 700 "custom";
  } else if (req.http.Mode == "restart") {
    restart;
  } else {
    set req.http.Branch = "else";
  }
  call helper;
  set req.http.T = table.lookup(tb1, "k", "none");
  set req.http.R = if(req.url ~ "^/(a)", re.group.1, "no");
  log "recv " req.http.Mode;
  return(lookup);
}
sub vcl_fetch {
#FASTLY fetch
  if (beresp.status == 500) {
    set beresp.ttl = 1s;
  } else {
    set beresp.ttl = 60s;
  }
  return(deliver);
}
sub vcl_deliver {
#FASTLY deliver
  set resp.http.D = "1";
  return(deliver);
}
sub vcl_error {
#FASTLY error
  synthetic "body";
  return(deliver);
}
`

// richB: the same behaviour written with switch, nested ifs and early returns.
const richB = richDecls + `
sub helper {
  if (!req.http.Helper) {
    set req.http.Helper = "real";
  } else {
    set req.http.Helper = "real";
  }
}
sub fn_helper STRING {
  declare local var.r STRING;
  set var.r = if(req.http.Fn, "alt", "real");
  return var.r;
}
sub do_restart {
  if (req.restarts >= 0) {
    restart;
  }
}
sub vcl_recv {
#FASTLY recv
  switch (req.http.Mode) {
  case "pass":
    return(pass);
    break;
  case "err":
    error 700 "custom";
    break;
  case "restart":
    restart;
    break;
  default:
    set req.http.Branch = "else";
    break;
  }
  call helper;
  if (table.contains(tb1, "k")) {
    set req.http.T = table.lookup(tb1, "k");
  } else {
    set req.http.T = "none";
  }
  if (req.url ~ "^/(a)") {
    set req.http.R = re.group.1;
  } else {
    set req.http.R = "no";
  }
  log "recv " + req.http.Mode;
  return(lookup);
}
sub vcl_fetch {
#FASTLY fetch
  set beresp.ttl = if(beresp.status == 500, 1s, 60s);
  return(deliver);
}
sub vcl_deliver {
#FASTLY deliver
  set resp.http.D = "1";
  return(deliver);
}
sub vcl_error {
#FASTLY error
  synthetic "body";
  return(deliver);
}
`

// minimal: no declarations at all (the tester supplies a virtual backend).
const minimal = `
sub vcl_recv {
#FASTLY recv
  return(lookup);
}
`

// minimalBackend: one backend, nothing else.
const minimalBackend = `
backend only { .host = "example.net"; .port = "80"; }
sub vcl_recv {
#FASTLY recv
  set req.backend = only;
  return(lookup);
}
`

var mains = []mainT{
	{"richA", richA, true},
	{"richB", richB, true},
	{"minimal", minimal, false},
	{"minimalBackend", minimalBackend, false},
}

// ---------------------------------------------------------------------------
// test alphabet

// exp is the constructed verdict of one reported case.
type exp struct {
	Name    string `json:"name"`
	Group   string `json:"group,omitempty"`
	Scope   string `json:"scope"`
	Verdict string `json:"verdict"` // pass | fail | skip
	Kind    string `json:"kind,omitempty"` // for fail: assert (AssertionError) | runtime (anything else)
	Msg     string `json:"msg,omitempty"`  // for fail: substring the reported message must contain
}

// item is one element of the alphabet: source text declaring one test
// (with its own fixtures) and the verdicts it must produce.
type item struct {
	ID      string
	Src     string
	Expect  []exp
	Fixture string // name of a shared fixture declaration (emitted once per file, before the first item that needs it)
	Rich    bool   // needs a rich main
	Class   string // verdict | writer | reader | group
	Grouped bool   // a describe block: independence is not claimed for grouped tests
}

var items []item
var itemIndex = map[string]int{}

func addItem(it item) {
	if _, dup := itemIndex[it.ID]; dup {
		panic("duplicate item " + it.ID)
	}
	itemIndex[it.ID] = len(items)
	items = append(items, it)
}

// simple declares one ungrouped test subroutine t_<id> in the given scopes.
func simple(id, class string, rich bool, scopes []string, ann string, body string, verdict, kind, msg string) {
	name := "t_" + id
	var b strings.Builder
	if len(scopes) > 0 {
		b.WriteString("// @scope: " + strings.Join(scopes, ", ") + "\n")
	}
	b.WriteString(ann)
	b.WriteString("sub " + name + " {\n" + body + "}\n")
	sc := scopes
	if len(sc) == 0 {
		sc = []string{"recv"}
	}
	var e []exp
	for _, s := range sc {
		e = append(e, exp{Name: name, Scope: strings.ToUpper(s), Verdict: verdict, Kind: kind, Msg: msg})
	}
	addItem(item{ID: id, Src: b.String(), Expect: e, Rich: rich, Class: class})
}

var recv = []string{"recv"}

// assertion pairs: {function, arguments that hold, arguments that fail, preamble}
type apair struct {
	fn, pre, hold, fail string
	rich                bool
}

var assertPairs = []apair{
	{"assert", `set req.http.A = "1";`, `req.http.A == "1"`, `req.http.A == "2"`, false},
	{"assert.true", "", `true`, `false`, false},
	{"assert.true", `set req.http.A = "1";`, `req.http.A == "1"`, `req.http.A != "1"`, false},
	{"assert.false", "", `false`, `true`, false},
	{"assert.is_json", "", `{"{"a":[1,2]}"}`, `"{a"`, false},
	{"assert.is_notset", `set req.http.A = "1";`, `req.http.Never`, `req.http.A`, false},
	{"assert.equal", `set req.http.A = "1";`, `req.http.A, "1"`, `req.http.A, "2"`, false},
	{"assert.equal", "", `std.atoi("3"), 3`, `std.atoi("3"), 4`, false},
	{"assert.equal", "", `true, true`, `true, false`, false},
	{"assert.not_equal", "", `"a", "b"`, `"a", "a"`, false},
	{"assert.strict_equal", "", `"a", "a"`, `"a", "b"`, false},
	{"assert.not_strict_equal", "", `"a", "b"`, `"a", "a"`, false},
	{"assert.equal_fold", "", `"ABC", "abc"`, `"ABC", "abd"`, false},
	{"assert.match", "", `"abc", "^a"`, `"abc", "^b"`, false},
	{"assert.not_match", "", `"abc", "^b"`, `"abc", "^a"`, false},
	{"assert.contains", "", `"abc", "b"`, `"abc", "x"`, false},
	{"assert.not_contains", "", `"abc", "x"`, `"abc", "b"`, false},
	{"assert.starts_with", "", `"abc", "ab"`, `"abc", "bc"`, false},
	{"assert.ends_with", "", `"abc", "bc"`, `"abc", "ab"`, false},
}

// assertion pairs whose truth depends on what the preamble did (rich mains only)
type spair struct {
	fn, args   string
	preHold    string
	preFail    string
}

var callHelper = `testing.call_subroutine("helper");` + "\n"
var recvMode = func(m string) string {
	return `set req.http.Mode = "` + m + `";` + "\n" + `testing.call_subroutine("vcl_recv");` + "\n"
}

var statePairs = []spair{
	{"assert.subroutine_called", `"helper"`, callHelper, ""},
	{"assert.subroutine_called", `"helper", 2`, callHelper + callHelper, callHelper},
	{"assert.subroutine_called", `"helper", 1`, recvMode(""), recvMode("pass")},
	{"assert.not_subroutine_called", `"helper"`, "", callHelper},
	{"assert.not_subroutine_called", `"helper"`, recvMode("pass"), recvMode("")},
	{"assert.restart", ``, `testing.call_subroutine("do_restart");` + "\n", callHelper},
	{"assert.restart", ``, recvMode("restart"), recvMode("")},
	{"assert.not_restart", ``, recvMode(""), recvMode("restart")},
	{"assert.state", `pass`, recvMode("pass"), recvMode("")},
	{"assert.state", `lookup`, recvMode(""), recvMode("pass")},
	{"assert.not_state", `pass`, recvMode(""), recvMode("pass")},
	{"assert.error", `700`, recvMode("err"), recvMode("pass")},
	{"assert.error", `700, "custom"`, recvMode("err"), recvMode("")},
	{"assert.not_error", ``, recvMode("pass"), recvMode("err")},
}

func init() {
	// --- verdict alphabet -------------------------------------------------
	for i, p := range assertPairs {
		pre := ""
		if p.pre != "" {
			pre = "  " + p.pre + "\n"
		}
		id := fmt.Sprintf("%s_%d", strings.ReplaceAll(p.fn, ".", "_"), i)
		simple(id+"_hold", "verdict", p.rich, recv, "", pre+"  "+p.fn+"("+p.hold+");\n", "pass", "", "")
		simple(id+"_fail", "verdict", p.rich, recv, "", pre+"  "+p.fn+"("+p.fail+");\n", "fail", "assert", "")
		// the same with a custom message: the message is what is reported
		simple(id+"_failmsg", "verdict", p.rich, recv, "", pre+"  "+p.fn+"("+p.fail+`, "custom message `+id+`");`+"\n", "fail", "assert", "")
	}
	for i, p := range statePairs {
		id := fmt.Sprintf("%s_s%d", strings.ReplaceAll(p.fn, ".", "_"), i)
		simple(id+"_hold", "verdict", true, recv, "", p.preHold+"  "+p.fn+"("+p.args+");\n", "pass", "", "")
		simple(id+"_fail", "verdict", true, recv, "", p.preFail+"  "+p.fn+"("+p.args+");\n", "fail", "assert", "")
	}
	// runtime errors
	simple("assert_error_wrong_status", "verdict", true, recv, "", recvMode("err")+"  assert.error(701);\n", "fail", "assert", "")
	simple("assert_error_no_error", "verdict", true, recv, "", "  assert.error(700);\n", "fail", "assert", "")
	simple("rt_undefvar", "verdict", false, recv, "", `  set var.undeclared = "x";`+"\n", "fail", "runtime", "var.undeclared")
	simple("rt_undeffn", "verdict", false, recv, "", `  undefined_fn();`+"\n", "fail", "runtime", "undefined_fn")
	simple("rt_undefsub", "verdict", false, recv, "", `  testing.call_subroutine("no_such_sub");`+"\n", "fail", "runtime", "no_such_sub")
	simple("rt_calltarget", "verdict", false, recv, "", `  call no_such_sub;`+"\n", "fail", "runtime", "no_such_sub")
	simple("rt_notable", "verdict", false, recv, "", `  testing.table_set(no_such_table, "k", "v");`+"\n", "fail", "runtime", "no_such_table")
	simple("rt_wrongscope", "verdict", false, recv, "", "  set beresp.ttl = 1s;\n", "fail", "runtime", "beresp.ttl")
	simple("rt_assertargs", "verdict", false, recv, "", "  assert.equal(1);\n", "fail", "runtime", "")
	simple("rt_in_called_sub", "verdict", true, recv, "", `  testing.mock("helper", "no_such_mock");`+"\n", "fail", "runtime", "no_such_mock")
	// sequences of assertions
	simple("seq_fail_then_pass", "verdict", false, recv, "", "  assert.true(false);\n  assert.true(true);\n", "fail", "assert", "")
	simple("seq_pass_then_fail", "verdict", false, recv, "", "  assert.true(true);\n  assert.true(false);\n", "fail", "assert", "")
	simple("seq_pass_pass", "verdict", false, recv, "", "  assert.true(true);\n  assert.false(false);\n  assert.equal(1, 1);\n", "pass", "", "")
	simple("seq_pass_then_rt", "verdict", false, recv, "", "  assert.true(true);\n  undefined_fn();\n", "fail", "runtime", "undefined_fn")
	simple("empty_body", "verdict", false, recv, "", "", "pass", "", "")
	simple("only_log", "verdict", false, recv, "", `  log "only";`+"\n", "pass", "", "")
	// assertions under control flow
	simple("cf_dead_branch", "verdict", false, recv, "", "  if (req.http.Never) {\n    assert.true(false);\n  }\n  assert.true(true);\n", "pass", "", "")
	simple("cf_live_branch", "verdict", false, recv, "", "  if (!req.http.Never) {\n    assert.true(false);\n  }\n", "fail", "assert", "")
	simple("cf_else_branch", "verdict", false, recv, "", "  if (req.http.Never) {\n    assert.true(true);\n  } else if (req.http.Never2) {\n    assert.true(true);\n  } else {\n    assert.true(false);\n  }\n", "fail", "assert", "")
	simple("cf_switch", "verdict", false, recv, "", "  set req.http.S = \"2\";\n  switch (req.http.S) {\n  case \"1\":\n    assert.true(true);\n    break;\n  case \"2\":\n    assert.true(false);\n    break;\n  default:\n    break;\n  }\n", "fail", "assert", "")
	simple("cf_after_return", "verdict", false, recv, "", "  assert.true(true);\n  return;\n  assert.true(false);\n", "pass", "", "")
	simple("cf_nested_block", "verdict", false, recv, "", "  {\n    {\n      assert.true(false);\n    }\n  }\n", "fail", "assert", "")
	simple("cf_ifexpr", "verdict", false, recv, "", "  assert.equal(if(req.http.Never, \"a\", \"b\"), \"a\");\n", "fail", "assert", "")
	// annotations
	simple("ann_skip_failing", "verdict", false, recv, "// @skip\n", "  assert.true(false);\n", "skip", "", "")
	simple("ann_skip_rt", "verdict", false, recv, "// @skip\n", "  undefined_fn();\n", "skip", "", "")
	simple("ann_skip_multi", "verdict", false, []string{"recv", "fetch", "deliver"}, "// @skip\n", "  assert.true(false);\n", "skip", "", "")
	simple("multi_hold", "verdict", false, []string{"recv", "fetch", "deliver"}, "", "  assert.true(true);\n", "pass", "", "")
	simple("multi_fail", "verdict", false, []string{"recv", "hash", "miss", "pass", "fetch", "error", "deliver", "log"}, "", "  assert.true(false);\n", "fail", "assert", "")
	{
		// holds in FETCH only: beresp.* does not exist in RECV
		name := "t_multi_mixed"
		addItem(item{ID: "multi_mixed", Class: "verdict",
			Src: "// @scope: recv, fetch\nsub " + name + " {\n  set beresp.ttl = 1s;\n  assert.equal(beresp.ttl, 1s);\n}\n",
			Expect: []exp{{Name: name, Scope: "RECV", Verdict: "fail", Kind: "runtime", Msg: "beresp.ttl"}, {Name: name, Scope: "FETCH", Verdict: "pass"}}})
	}
	{
		// scope from the subroutine name suffix
		addItem(item{ID: "scope_suffix", Class: "verdict",
			Src:    "sub t_scope_suffix_fetch {\n  set beresp.ttl = 1s;\n  assert.equal(beresp.ttl, 1s);\n}\n",
			Expect: []exp{{Name: "t_scope_suffix_fetch", Scope: "FETCH", Verdict: "pass"}}})
		addItem(item{ID: "scope_default", Class: "verdict",
			Src:    "sub t_scope_default {\n  assert.equal(req.method, \"GET\");\n}\n",
			Expect: []exp{{Name: "t_scope_default", Scope: "RECV", Verdict: "pass"}}})
		addItem(item{ID: "suite_name", Class: "verdict",
			Src:    "// @scope: recv\n// @suite: a named suite\nsub t_suite_name {\n  assert.true(false);\n}\n",
			Expect: []exp{{Name: "a named suite", Scope: "RECV", Verdict: "fail", Kind: "assert"}}})
	}
	// scopes other than recv
	simple("fetch_call", "verdict", true, []string{"fetch"}, "", "  set beresp.status = 500;\n  testing.call_subroutine(\"vcl_fetch\");\n  assert.equal(beresp.ttl, 1s);\n  assert.state(deliver);\n", "pass", "", "")
	simple("fetch_call_fail", "verdict", true, []string{"fetch"}, "", "  set beresp.status = 200;\n  testing.call_subroutine(\"vcl_fetch\");\n  assert.equal(beresp.ttl, 1s);\n", "fail", "assert", "")
	simple("deliver_call", "verdict", true, []string{"deliver"}, "", "  testing.call_subroutine(\"vcl_deliver\");\n  assert.equal(resp.http.D, \"1\");\n", "pass", "", "")
	simple("error_call", "verdict", true, []string{"error"}, "", "  testing.call_subroutine(\"vcl_error\");\n  assert.equal(testing.synthetic_body, \"body\");\n", "pass", "", "")
	simple("error_call_fail", "verdict", true, []string{"error"}, "", "  testing.call_subroutine(\"vcl_error\");\n  assert.equal(testing.synthetic_body, \"other\");\n", "fail", "assert", "")
	simple("recv_full", "verdict", true, recv, "", "  set req.url = \"/a/1\";\n  testing.call_subroutine(\"vcl_recv\");\n  assert.equal(req.http.Branch, \"else\");\n  assert.equal(req.http.Helper, \"real\");\n  assert.equal(req.http.T, \"orig\");\n  assert.equal(req.http.R, \"a\");\n  assert.state(lookup);\n", "pass", "", "")
	simple("recv_full_fail", "verdict", true, recv, "", "  set req.url = \"/b/1\";\n  testing.call_subroutine(\"vcl_recv\");\n  assert.equal(req.http.R, \"a\");\n", "fail", "assert", "")
	simple("fn_call", "verdict", true, recv, "", "  declare local var.s STRING;\n  set var.s = testing.call_subroutine(\"fn_helper\");\n  assert.equal(var.s, \"real\");\n  set req.http.Fn = \"1\";\n  set var.s = testing.call_subroutine(\"fn_helper\");\n  assert.equal(var.s, \"alt\");\n", "pass", "", "")

	// --- interaction alphabet: writers (each passes on its own) -----------
	w := func(id string, rich bool, scopes []string, fix, body string) {
		name := "t_" + id
		var b strings.Builder
		b.WriteString(fix)
		b.WriteString("// @scope: " + strings.Join(scopes, ", ") + "\n")
		b.WriteString("sub " + name + " {\n" + body + "}\n")
		var e []exp
		for _, s := range scopes {
			e = append(e, exp{Name: name, Scope: strings.ToUpper(s), Verdict: "pass"})
		}
		addItem(item{ID: id, Src: b.String(), Expect: e, Rich: rich, Class: "writer"})
	}
	w("w_table_set", true, recv, "", "  testing.table_set(tb1, \"k\", \"changed\");\n  assert.equal(table.lookup(tb1, \"k\", \"none\"), \"changed\");\n")
	w("w_table_new", true, recv, "", "  testing.table_set(tb1, \"fresh\", \"v\");\n  assert.equal(table.lookup(tb1, \"fresh\", \"none\"), \"v\");\n")
	w("w_table_merge", true, recv, "table w_tbl { \"k\": \"merged\", \"m\": \"1\" }\n", "  testing.table_merge(tb1, w_tbl);\n  assert.equal(table.lookup(tb1, \"k\", \"none\"), \"merged\");\n")
	// merge a test-side table into the main table and then overwrite one merged key: the fixture itself must stay as declared
	addItem(item{ID: "w_table_merge_then_set", Class: "writer", Rich: true, Fixture: "shared_tbl",
		Src:    "// @scope: recv\nsub t_w_table_merge_then_set {\n  testing.table_merge(tb1, shared_tbl);\n  testing.table_set(tb1, \"region\", \"us\");\n  assert.equal(table.lookup(tb1, \"region\", \"none\"), \"us\");\n}\n",
		Expect: []exp{{Name: "t_w_table_merge_then_set", Scope: "RECV", Verdict: "pass"}}})
	addItem(item{ID: "r_table_merge", Class: "reader", Rich: true, Fixture: "shared_tbl",
		Src:    "// @scope: recv\nsub t_r_table_merge {\n  testing.table_merge(tb1, shared_tbl);\n  assert.equal(table.lookup(tb1, \"region\", \"none\"), \"eu\");\n  assert.equal(table.lookup(tb1, \"mode\", \"none\"), \"staging\");\n  log \"region=\" table.lookup(tb1, \"region\", \"none\");\n}\n",
		Expect: []exp{{Name: "t_r_table_merge", Scope: "RECV", Verdict: "pass"}}})
	w("w_inject", false, recv, "", "  testing.inject_variable(\"client.geo.country_code\", \"ZZ\");\n  assert.equal(client.geo.country_code, \"ZZ\");\n")
	w("w_inject_proto", false, recv, "", "  testing.inject_variable(\"req.protocol\", \"https\");\n  assert.true(req.is_ssl);\n")
	w("w_mock", true, recv, "sub w_mock_helper {\n  set req.http.Helper = \"mocked\";\n}\n", "  testing.mock(\"helper\", \"w_mock_helper\");\n  testing.call_subroutine(\"vcl_recv\");\n  assert.equal(req.http.Helper, \"mocked\");\n")
	w("w_mock_fn", true, recv, "sub w_mock_fn STRING {\n  return \"mocked\";\n}\n", "  testing.mock(\"fn_helper\", \"w_mock_fn\");\n  declare local var.s STRING;\n  set var.s = testing.call_subroutine(\"fn_helper\");\n  assert.equal(var.s, \"mocked\");\n")
	w("w_fixed_time", false, recv, "", "  testing.fixed_time(1000000000);\n  assert.equal(now.sec, \"1000000000\");\n")
	w("w_override_host", false, recv, "", "  testing.override_host(\"leak.example\");\n")
	w("w_backend_health", true, recv, "", "  testing.set_backend_health(be1, false);\n  assert.false(backend.be1.healthy);\n")
	w("w_header", false, recv, "", "  set req.http.X-Leak = \"1\";\n  set req.http.Cookie = \"a=b\";\n  unset req.http.Host;\n")
	w("w_request", false, recv, "", "  set req.url = \"/changed?x=1\";\n  set req.method = \"POST\";\n")
	w("w_ratecounter", true, recv, "", "  declare local var.n INTEGER;\n  set var.n = ratelimit.ratecounter_increment(rc1, \"k\", 50);\n  assert.equal(var.n, 50);\n")
	w("w_penaltybox", true, recv, "", "  ratelimit.penaltybox_add(pb1, \"k\", 10m);\n  assert.true(ratelimit.penaltybox_has(pb1, \"k\"));\n")
	w("w_check_rate", true, recv, "", "  declare local var.b BOOL;\n  set var.b = ratelimit.check_rate(\"k\", rc1, 1000, 10, 10, pb1, 10m);\n")
	w("w_access_rate", true, recv, "", "  testing.fixed_access_rate(100.0);\n")
	w("w_regex", false, recv, "", "  if (req.http.Host ~ \"^(l)(o)\") {\n    assert.equal(re.group.1, \"l\");\n  }\n")
	w("w_backend", true, recv, "", "  set req.backend = be2;\n")
	w("w_log", false, recv, "", "  log \"leak\";\n")
	w("w_error", true, recv, "", recvMode("err")+"  assert.error(700);\n")
	w("w_restart", true, recv, "", "  testing.call_subroutine(\"do_restart\");\n  assert.restart();\n")
	w("w_state", true, recv, "", recvMode("pass")+"  assert.state(pass);\n")
	w("w_called", true, recv, "", callHelper+"  assert.subroutine_called(\"helper\");\n")
	w("w_local", false, recv, "", "  declare local var.shared STRING;\n  set var.shared = \"leak\";\n")
	w("w_misc_vars", false, recv, "", "  set req.grace = 7s;\n  set client.identity = \"leak\";\n  set req.hash_always_miss = true;\n  set req.max_stale_if_error = 9s;\n  set req.esi = false;\n")
	w("w_fetch", false, []string{"fetch"}, "", "  set beresp.ttl = 999s;\n  set beresp.http.X-Leak = \"1\";\n  set beresp.status = 503;\n  set beresp.cacheable = false;\n  set bereq.http.X-Leak = \"1\";\n")
	w("w_deliver", false, []string{"deliver"}, "", "  set resp.status = 599;\n  set resp.http.X-Leak = \"1\";\n")
	w("w_error_scope", false, []string{"error"}, "", "  set obj.status = 598;\n  set obj.http.X-Leak = \"1\";\n  synthetic \"leak\";\n  assert.equal(testing.synthetic_body, \"leak\");\n")
	// a writer that fails after writing (failure must not leak either); expectation overridden below
	addItem(item{ID: "w_fail_after_write", Class: "writer", Rich: true,
		Src:    "// @scope: recv\nsub t_w_fail_after_write {\n  testing.table_set(tb1, \"k\", \"changed\");\n  set req.http.X-Leak = \"1\";\n  testing.inject_variable(\"client.geo.country_code\", \"ZZ\");\n  assert.true(false);\n}\n",
		Expect: []exp{{Name: "t_w_fail_after_write", Scope: "RECV", Verdict: "fail", Kind: "assert"}}})

	// --- readers: each logs what it sees; the oracle is the solo run -------
	r := func(id string, rich bool, scopes []string, body string, verdict string) {
		name := "t_" + id
		var b strings.Builder
		b.WriteString("// @scope: " + strings.Join(scopes, ", ") + "\n")
		b.WriteString("sub " + name + " {\n" + body + "}\n")
		var e []exp
		for _, s := range scopes {
			ee := exp{Name: name, Scope: strings.ToUpper(s), Verdict: verdict}
			if verdict == "fail" {
				ee.Kind = "assert"
			}
			e = append(e, ee)
		}
		addItem(item{ID: id, Src: b.String(), Expect: e, Rich: rich, Class: "reader"})
	}
	r("r_table", true, recv, "  assert.equal(table.lookup(tb1, \"k\", \"none\"), \"orig\");\n  assert.equal(table.lookup(tb1, \"fresh\", \"none\"), \"none\");\n  assert.equal(table.lookup(tb1, \"m\", \"none\"), \"none\");\n", "pass")
	r("r_inject", false, recv, "  assert.not_equal(client.geo.country_code, \"ZZ\");\n  assert.false(req.is_ssl);\n  log \"proto=\" req.protocol;\n", "pass")
	r("r_mock", true, recv, "  testing.call_subroutine(\"vcl_recv\");\n  assert.equal(req.http.Helper, \"real\");\n  declare local var.s STRING;\n  set var.s = testing.call_subroutine(\"fn_helper\");\n  assert.equal(var.s, \"real\");\n", "pass")
	r("r_time", false, recv, "  assert.not_equal(now.sec, \"1000000000\");\n", "pass")
	r("r_host", false, recv, "  log \"host=\" req.http.Host;\n  assert.not_equal(req.http.Host, \"leak.example\");\n", "pass")
	r("r_backend_health", true, recv, "  assert.true(backend.be1.healthy);\n  assert.true(backend.be2.healthy);\n", "pass")
	r("r_header", false, recv, "  assert.is_notset(req.http.X-Leak);\n  assert.is_notset(req.http.Cookie);\n  log \"url=\" req.url;\n  assert.equal(req.method, \"GET\");\n", "pass")
	r("r_rate", true, recv, "  assert.false(ratelimit.penaltybox_has(pb1, \"k\"));\n  assert.false(ratelimit.check_rate(\"k\", rc1, 1, 10, 40, pb1, 10m));\n  log \"bucket=\" ratecounter.rc1.bucket.10s \" rate=\" ratecounter.rc1.rate.10s;\n", "pass")
	r("r_regex", false, recv, "  log \"g1=\" re.group.1 \" g2=\" re.group.2;\n", "pass")
	r("r_backend", true, recv, "  log \"backend=\" req.backend;\n  assert.equal(req.backend, be1);\n", "pass")
	r("r_state", true, recv, "  assert.not_error();\n  assert.not_restart();\n  assert.not_subroutine_called(\"helper\");\n  assert.not_state(pass);\n  log \"state=\" testing.state \" restarts=\" req.restarts;\n", "pass")
	r("r_local", false, recv, "  declare local var.shared STRING;\n  log \"shared=\" var.shared;\n", "pass")
	r("r_misc_vars", false, recv, "  log \"grace=\" req.grace \" id=\" client.identity \" ham=\" req.hash_always_miss \" msie=\" req.max_stale_if_error \" esi=\" req.esi;\n", "pass")
	r("r_dump_recv", false, recv, "  log \"url=\" req.url \" m=\" req.method \" p=\" req.proto \" h=\" req.http.Host \" ip=\" client.ip \" r=\" req.restarts \" ua=\" req.http.User-Agent;\n  log \"geo=\" client.geo.country_code \" as=\" client.as.number \" ssl=\" req.is_ssl \" bk=\" req.backend \" x=\" req.http.X-Leak;\n", "pass")
	r("r_fetch", false, []string{"fetch"}, "  log \"ttl=\" beresp.ttl \" st=\" beresp.status \" c=\" beresp.cacheable \" x=\" beresp.http.X-Leak \" bx=\" bereq.http.X-Leak;\n  assert.is_notset(beresp.http.X-Leak);\n", "pass")
	r("r_deliver", false, []string{"deliver"}, "  log \"st=\" resp.status \" x=\" resp.http.X-Leak;\n  assert.equal(resp.status, 200);\n", "pass")
	r("r_error_scope", false, []string{"error"}, "  log \"st=\" obj.status \" x=\" obj.http.X-Leak \" body=\" testing.synthetic_body;\n  assert.not_equal(testing.synthetic_body, \"leak\");\n", "pass")
	r("r_multi_scope", false, []string{"recv", "fetch", "deliver", "error", "log"}, "  log \"x=\" req.http.X-Leak \" url=\" req.url;\n  assert.is_notset(req.http.X-Leak);\n", "pass")
	r("r_failing", false, recv, "  log \"x=\" req.http.X-Leak;\n  assert.equal(req.http.X-Leak, \"1\");\n", "fail")

	// --- describe groups ---------------------------------------------------
	g := func(id string, rich bool, src string, e []exp) {
		addItem(item{ID: id, Src: src, Expect: e, Rich: rich, Class: "group", Grouped: true})
	}
	g("g_basic", false, `describe g_basic {
  before_recv {
    set req.http.Before = "1";
  }
  // @scope: recv
  sub g_basic_a {
    assert.equal(req.http.Before, "1");
    set req.http.X-Leak = "1";
    log "in group";
  }
  // @scope: recv
  sub g_basic_b {
    assert.true(false);
  }
  // @scope: recv
  // @skip
  sub g_basic_c {
    assert.true(false);
  }
}
`, []exp{
		{Name: "g_basic_a", Group: "g_basic", Scope: "RECV", Verdict: "pass"},
		{Name: "g_basic_b", Group: "g_basic", Scope: "RECV", Verdict: "fail", Kind: "assert"},
		{Name: "g_basic_c", Group: "g_basic", Scope: "RECV", Verdict: "skip"},
	})
	g("g_stateful", true, `describe g_stateful {
  // @scope: recv
  sub g_stateful_a {
    testing.table_set(tb1, "k", "changed");
    testing.inject_variable("client.geo.country_code", "ZZ");
    testing.fixed_time(1000000000);
    testing.set_backend_health(be1, false);
    set req.http.X-Leak = "1";
    assert.true(true);
  }
  // @scope: recv
  sub g_stateful_b {
    assert.equal(req.http.X-Leak, "1");
    assert.equal(table.lookup(tb1, "k", "none"), "changed");
  }
}
`, []exp{
		{Name: "g_stateful_a", Group: "g_stateful", Scope: "RECV", Verdict: "pass"},
		{Name: "g_stateful_b", Group: "g_stateful", Scope: "RECV", Verdict: "pass"},
	})
	g("g_mock", true, `sub g_mock_target {
  set req.http.Helper = "group-mocked";
}
describe g_mock {
  before_recv {
    testing.mock("helper", "g_mock_target");
  }
  // @scope: recv
  sub g_mock_a {
    testing.call_subroutine("vcl_recv");
    assert.equal(req.http.Helper, "group-mocked");
  }
}
`, []exp{
		{Name: "g_mock_target", Scope: "RECV", Verdict: "pass"},
		{Name: "g_mock_a", Group: "g_mock", Scope: "RECV", Verdict: "pass"},
	})
	// a group whose inner subroutine has the same name as another item's fixture
	g("g_shadow", true, `describe g_shadow {
  // @scope: recv
  sub w_mock_helper {
    assert.true(true);
  }
}
`, []exp{
		{Name: "w_mock_helper", Group: "g_shadow", Scope: "RECV", Verdict: "pass"},
	})
}

// fixtureCases: subroutines declared as fixtures in an item's source are
// themselves run as tests by the runner (every top-level subroutine is);
// they pass trivially. They are listed here so that the constructed case
// list is complete.
var fixtureCases = map[string][]exp{
	"w_mock":    {{Name: "w_mock_helper", Scope: "RECV", Verdict: "pass"}},
	"w_mock_fn": {{Name: "w_mock_fn", Scope: "RECV", Verdict: "pass"}},
}

// shared fixtures of the test file
var sharedFixtures = map[string]string{
	"shared_tbl": "table shared_tbl { \"mode\": \"staging\", \"region\": \"eu\" }\n",
}

func expected(it item) []exp {
	if f, ok := fixtureCases[it.ID]; ok {
		return append(append([]exp{}, f...), it.Expect...)
	}
	return it.Expect
}
