// Package c10: test-runner verdicts are faithful.
//
// Three families of cases, all enumerated exhaustively within the stated bounds:
//
//	seq  — a test file assembled from an ordered selection of alphabet items
//	       (items.go) run in-process through tester.New(conf, opts).Run(main)
//	       with the options cmd/falco's Runner.Test uses. Oracles: the constructed
//	       verdict of every reported case; the runner's counters; and, for every
//	       ungrouped test, equality of (verdict, error, logs) with the same test run
//	       alone, without coverage, against the same main.
//	flow — a generated main (flows.go) and a fixed driver test, run without and with
//	       coverage instrumentation; the two observations must be equal.
//	cli  — the real `falco test` / `falco test -json` on a selection of files:
//	       exit status, printed counts and JSON summary against the constructed verdicts.
package c10

import (
	"bytes"
	"encoding/json"
	"fmt"
	"os"
	"os/exec"
	"path/filepath"
	"regexp"
	"strconv"
	"strings"
	"sync"

	"github.com/ysugimoto/falco/v2/config"
	icontext "github.com/ysugimoto/falco/v2/interpreter/context"
	ife "github.com/ysugimoto/falco/v2/interpreter/function/errors"
	"github.com/ysugimoto/falco/v2/resolver"
	"github.com/ysugimoto/falco/v2/tester"

	"verif/mc/engine"
)

// Case is one enumerated case.
type Case struct {
	Kind  string   `json:"kind"` // seq | flow | cli
	Main  string   `json:"main"` // name of a fixed main, or "flow"
	Items []string `json:"items,omitempty"`
	Cov   bool     `json:"cov"`
	JSON  bool     `json:"json,omitempty"`
	// flow
	Cont string   `json:"cont,omitempty"` // container shape
	Arms []int    `json:"arms,omitempty"` // leaf index per arm
	Sets []string `json:"sets,omitempty"` // input assignments of the driver
}

// obs is what the runner reported for one case of a file.
type obs struct {
	Name    string   `json:"name"`
	Group   string   `json:"group,omitempty"`
	Scope   string   `json:"scope"`
	Verdict string   `json:"verdict"`
	ErrKind string   `json:"err_kind,omitempty"`
	Err     string   `json:"err,omitempty"`
	Logs    []string `json:"logs,omitempty"`
}

type runOut struct {
	Cases   []obs
	Asserts int
	Passes  int
	Fails   int
	Skips   int
	RunErr  string
}

var (
	reLoc  = regexp.MustCompile(` \([^() ]+\.vcl \d+:\d+\)$`)
	reLine = regexp.MustCompile(`(line: ?|position: ?|Line: ?|Position: ?)\d+`)
	rePath = regexp.MustCompile(`/[^ ]*/c10-[^/ ]+/`)
)

func normErr(s string) string {
	s = rePath.ReplaceAllString(s, "")
	return reLine.ReplaceAllString(s, "${1}N")
}

func normLog(s string) string { return reLoc.ReplaceAllString(s, "") }

// runLib runs main + test file through the tester in-process, with the options of cmd/falco's Runner.Test.
func runLib(mainSrc, testSrc string, cov bool) runOut {
	dir, err := os.MkdirTemp(engine.Scratch(), "c10-")
	if err != nil {
		panic(err)
	}
	defer os.RemoveAll(dir)
	main := filepath.Join(dir, "main.vcl")
	os.WriteFile(main, []byte(mainSrc), 0o644)
	os.WriteFile(filepath.Join(dir, "main.test.vcl"), []byte(testSrc), 0o644)
	rs, err := resolver.NewFileResolvers(main, nil)
	if err != nil {
		return runOut{RunErr: "resolver: " + err.Error()}
	}
	opts := []icontext.Option{icontext.WithResolver(rs[0]), icontext.WithMaxBackends(0), icontext.WithMaxAcls(0), icontext.WithOverrideVariables(map[string]any{})}
	t := tester.New(&config.TestConfig{Filter: "*.test.vcl", Coverage: cov}, opts)
	f, err := t.Run(main)
	if err != nil {
		return runOut{RunErr: normErr(err.Error())}
	}
	var out runOut
	for _, r := range f.Results {
		for _, c := range r.Cases {
			o := obs{Name: c.Name, Group: c.Group, Scope: c.Scope}
			switch {
			case c.Skip:
				o.Verdict = "skip"
			case c.Error != nil:
				o.Verdict = "fail"
				o.Err = normErr(c.Error.Error())
				switch c.Error.(type) {
				case *ife.AssertionError:
					o.ErrKind = "assert"
				default:
					o.ErrKind = "runtime"
				}
			default:
				o.Verdict = "pass"
			}
			for _, l := range c.Logs {
				o.Logs = append(o.Logs, normLog(l))
			}
			out.Cases = append(out.Cases, o)
		}
	}
	out.Asserts, out.Passes, out.Fails, out.Skips = f.Statistics.Asserts, f.Statistics.Passes, f.Statistics.Fails, f.Statistics.Skips
	return out
}

func mainByName(n string) mainT {
	for _, m := range mains {
		if m.Name == n {
			return m
		}
	}
	panic("no main " + n)
}

func assemble(ids []string) (string, []exp, []bool) {
	var b strings.Builder
	var e []exp
	var grouped []bool
	declared := map[string]bool{}
	for _, id := range ids {
		it := items[itemIndex[id]]
		if it.Fixture != "" && !declared[it.Fixture] {
			declared[it.Fixture] = true
			b.WriteString(sharedFixtures[it.Fixture])
		}
		b.WriteString(it.Src)
		b.WriteString("\n")
		for _, x := range expected(it) {
			e = append(e, x)
			grouped = append(grouped, x.Group != "")
		}
	}
	return b.String(), e, grouped
}

// solo baselines: (main, item) -> observations of that item alone without coverage
var (
	soloMu sync.Mutex
	solo   = map[string][]obs{}
)

func soloOf(main, id string) []obs {
	k := main + "\x00" + id
	soloMu.Lock()
	defer soloMu.Unlock()
	if o, ok := solo[k]; ok {
		return o
	}
	src, _, _ := assemble([]string{id})
	o := runLib(mainByName(main).Src, src, false)
	solo[k] = o.Cases
	return o.Cases
}

func sameObs(a, b obs) string {
	if a.Verdict != b.Verdict {
		return "verdict"
	}
	if a.Err != b.Err {
		return "error"
	}
	if strings.Join(a.Logs, "\n") != strings.Join(b.Logs, "\n") {
		return "logs"
	}
	return ""
}

func find(class, what string, detail any) engine.Finding {
	return engine.Finding{Class: class, What: what, Detail: detail}
}

func covTag(c bool) string {
	if c {
		return "cov"
	}
	return "nocov"
}

func runSeq(c Case) engine.Result {
	m := mainByName(c.Main)
	src, want, _ := assemble(c.Items)
	got := runLib(m.Src, src, c.Cov)
	res := engine.Result{NonTrivial: len(c.Items) > 0}
	if got.RunErr != "" {
		res.Outcome = "run-error"
		res.Findings = append(res.Findings, find("run-error|"+normErr(got.RunErr), "the runner returned an error instead of verdicts: "+got.RunErr, got))
		return res
	}
	// 1. constructed verdicts
	if len(got.Cases) != len(want) {
		res.Findings = append(res.Findings, find("case-count|"+fmt.Sprint(len(got.Cases)-len(want)), fmt.Sprintf("%d cases reported, %d tests constructed", len(got.Cases), len(want)), got))
		return res
	}
	var oc []string
	nf, ns, np := 0, 0, 0
	// position of each reported case -> (item index, index within item)
	pos := 0
	for ii, id := range c.Items {
		it := items[itemIndex[id]]
		ex := expected(it)
		so := []obs(nil)
		for j := range ex {
			w, g := ex[j], got.Cases[pos]
			oc = append(oc, g.Verdict)
			switch g.Verdict {
			case "fail":
				nf++
			case "skip":
				ns++
			default:
				np++
			}
			// class keys: the constructed-verdict oracle names the test only (what surrounds it is the
			// independence oracle's business); the independence oracle names the test, what differs and,
			// in a pair, the other test
			ctx := id + "|in-sequence|" + covTag(c.Cov)
			if len(c.Items) == 1 {
				ctx = id + "|alone|" + covTag(c.Cov)
			} else if len(c.Items) == 2 {
				ctx = id + "|with:" + c.Items[1-ii] + "|" + covTag(c.Cov)
			}
			if g.Name != w.Name || g.Scope != w.Scope {
				res.Findings = append(res.Findings, find("identity|"+id, fmt.Sprintf("case %d reported as %s/%s, constructed %s/%s", pos, g.Name, g.Scope, w.Name, w.Scope), got))
			} else if g.Verdict != w.Verdict {
				res.Findings = append(res.Findings, find("verdict|"+w.Verdict+"->"+g.Verdict+"|"+id+"|"+w.Scope, fmt.Sprintf("test %s [%s] constructed to %s is reported %s (%s)", w.Name, w.Scope, w.Verdict, g.Verdict, g.Err), got))
			} else if w.Verdict == "fail" {
				if w.Kind != "" && g.ErrKind != w.Kind {
					res.Findings = append(res.Findings, find("error-kind|"+id, fmt.Sprintf("test %s fails with a %s error, constructed %s: %s", w.Name, g.ErrKind, w.Kind, g.Err), got))
				} else if w.Msg != "" && !strings.Contains(g.Err, w.Msg) {
					res.Findings = append(res.Findings, find("error-text|"+id, fmt.Sprintf("test %s fails with %q, which does not name %q: the failure is not the constructed one", w.Name, g.Err, w.Msg), got))
				}
			}
			// 3. independence of ungrouped tests from neighbours, order and coverage
			if !it.Grouped && (len(c.Items) > 1 || c.Cov) {
				if so == nil {
					so = soloOf(c.Main, id)
				}
				if j < len(so) {
					if d := sameObs(so[j], g); d != "" {
						res.Findings = append(res.Findings, find("dependent|"+d+"|"+ctx, fmt.Sprintf("test %s [%s]: %s differs from the same test run alone without coverage: alone %s %q %q, here %s %q %q", w.Name, w.Scope, d, so[j].Verdict, so[j].Err, so[j].Logs, g.Verdict, g.Err, g.Logs), map[string]any{"alone": so[j], "here": g}))
					}
				}
			}
			pos++
		}
	}
	// 2. counters
	if got.Skips != ns {
		res.Findings = append(res.Findings, find("count|skips|"+covTag(c.Cov), fmt.Sprintf("summary counts %d skipped, %d cases are skipped", got.Skips, ns), got))
	}
	if (got.Fails > 0) != (nf > 0) {
		res.Findings = append(res.Findings, find("count|fails|"+covTag(c.Cov), fmt.Sprintf("summary counts %d fails (decides the exit status), %d cases failed", got.Fails, nf), got))
	}
	if got.Asserts != got.Passes+got.Fails {
		res.Findings = append(res.Findings, find("count|asserts|"+covTag(c.Cov), fmt.Sprintf("asserts %d != passes %d + fails %d", got.Asserts, got.Passes, got.Fails), got))
	}
	res.Outcome = fmt.Sprintf("p%d f%d s%d", np, nf, ns)
	return res
}

// flowDiff runs one flow program without and with coverage and says what differs ("" = nothing).
func flowDiff(cont string, arms []int, sets []string) (string, string, obs, bool) {
	f, ok := buildFlow(cont, arms)
	if !ok {
		return "", "", obs{}, false
	}
	test := driver(f.Scope, sets)
	off := runLib(f.Main, test, false)
	on := runLib(f.Main, test, true)
	if off.RunErr != "" || on.RunErr != "" {
		if off.RunErr != on.RunErr {
			return "run-error", fmt.Sprintf("runner error differs: without coverage %q, with %q", off.RunErr, on.RunErr), obs{}, true
		}
		return "", "", obs{Verdict: "run-error", Err: off.RunErr}, true
	}
	if len(off.Cases) != 1 || len(on.Cases) != 1 {
		return "case-count", fmt.Sprintf("cases: %d without coverage, %d with", len(off.Cases), len(on.Cases)), obs{}, true
	}
	a, b := off.Cases[0], on.Cases[0]
	if d := sameObs(a, b); d != "" {
		return d, fmt.Sprintf("%s differs with --coverage: without %s %q %q, with %s %q %q", d, a.Verdict, a.Err, a.Logs, b.Verdict, b.Err, b.Logs), a, true
	}
	return "", "", a, true
}

func leafName(i int) string { return leaves("a", 0)[i].Name }

func runFlow(c Case) engine.Result {
	res := engine.Result{NonTrivial: true}
	d, what, a, ok := flowDiff(c.Cont, c.Arms, c.Sets)
	if !ok {
		panic("flow case does not build")
	}
	if a.Verdict == "run-error" {
		// the generated program is not accepted at all (with and without coverage alike): a generator defect, reported loudly
		res.Findings = append(res.Findings, find("flow|rejected|"+c.Cont, "generated flow program is rejected by the runner: "+a.Err, nil))
		return res
	}
	if d != "" {
		// attribute to the smallest set of deviating leaves that differs on its own (same container, same inputs)
		var dev []int
		for i, l := range c.Arms {
			if l != 0 {
				dev = append(dev, i)
			}
		}
		culprit := ""
		if len(dev) > 1 {
			for _, i := range dev {
				arms := make([]int, len(c.Arms))
				arms[i] = c.Arms[i]
				if d1, _, _, ok := flowDiff(c.Cont, arms, c.Sets); ok && d1 != "" {
					culprit = "leaf:" + leafName(c.Arms[i])
					break
				}
			}
		}
		if culprit == "" {
			var ls []string
			for _, i := range dev {
				ls = append(ls, leafName(c.Arms[i]))
			}
			culprit = "leaf:" + strings.Join(ls, "+")
			if len(dev) == 0 {
				culprit = "container:" + c.Cont
			}
		}
		res.Findings = append(res.Findings, find("flow|"+d+"|"+culprit, what, map[string]any{"container": c.Cont, "arms": c.Arms}))
	}
	res.Outcome = a.Verdict + "|" + strings.Join(a.Logs, "|")
	if len(res.Outcome) > 120 {
		res.Outcome = res.Outcome[:120]
	}
	return res
}

var reCounts = regexp.MustCompile(`(\d+) passed, (\d+) failed, (\d+) skipped, (\d+) total, (\d+) assertions`)

func runCLI(c Case) engine.Result {
	falco := os.Getenv("VERIF_FALCO")
	if falco == "" {
		panic("VERIF_FALCO not set")
	}
	m := mainByName(c.Main)
	src, want, _ := assemble(c.Items)
	dir, err := os.MkdirTemp(engine.Scratch(), "c10-")
	if err != nil {
		panic(err)
	}
	defer os.RemoveAll(dir)
	os.WriteFile(filepath.Join(dir, "main.vcl"), []byte(m.Src), 0o644)
	os.WriteFile(filepath.Join(dir, "main.test.vcl"), []byte(src), 0o644)
	args := []string{"test"}
	if c.JSON {
		args = append(args, "-json")
	}
	if c.Cov {
		args = append(args, "--coverage")
	}
	args = append(args, "main.vcl")
	cmd := exec.Command(falco, args...)
	cmd.Dir = dir
	cmd.Env = append(os.Environ(), "TERM=xterm", "NO_COLOR=1")
	var so, se bytes.Buffer
	cmd.Stdout, cmd.Stderr = &so, &se
	err = cmd.Run()
	code := 0
	if ee, ok := err.(*exec.ExitError); ok {
		code = ee.ExitCode()
	} else if err != nil {
		panic(err)
	}
	nf, ns, np := 0, 0, 0
	for _, w := range want {
		switch w.Verdict {
		case "fail":
			nf++
		case "skip":
			ns++
		default:
			np++
		}
	}
	res := engine.Result{NonTrivial: true, Outcome: fmt.Sprintf("exit%d p%d f%d s%d", code, np, nf, ns)}
	mode := "text"
	if c.JSON {
		mode = "json"
	}
	ctx := mode + "|" + covTag(c.Cov)
	detail := map[string]any{"stdout": trunc(so.String(), 4000), "stderr": trunc(se.String(), 2000), "exit": code}
	if (code != 0) != (nf > 0) {
		res.Findings = append(res.Findings, find("exit|"+ctx+"|"+fmt.Sprintf("failed=%v", nf > 0), fmt.Sprintf("falco test exits %d with %d failed tests of %d", code, nf, len(want)), detail))
	}
	if c.JSON {
		var doc struct {
			Tests []struct {
				File   string `json:"file"`
				Suites []struct {
					Name  string `json:"name"`
					Error string `json:"error"`
					Scope string `json:"scope"`
					Skip  bool   `json:"skip"`
				} `json:"suites"`
			} `json:"tests"`
			Summary struct {
				Asserts, Passes, Fails, Skips int
			} `json:"summary"`
		}
		raw := so.Bytes()
		if i := bytes.IndexByte(raw, '{'); i > 0 {
			raw = raw[i:]
		}
		if err := json.Unmarshal(raw, &doc); err != nil {
			res.Findings = append(res.Findings, find("json|unparseable|"+covTag(c.Cov), "falco test -json did not print one JSON document: "+err.Error(), detail))
			return res
		}
		var got []string
		jf, js := 0, 0
		for _, t := range doc.Tests {
			for _, s := range t.Suites {
				v := "pass"
				if s.Skip {
					v = "skip"
					js++
				} else if s.Error != "" {
					v = "fail"
					jf++
				}
				got = append(got, v)
			}
		}
		if len(got) != len(want) {
			res.Findings = append(res.Findings, find("json|case-count|"+covTag(c.Cov), fmt.Sprintf("%d suites in JSON, %d tests constructed", len(got), len(want)), detail))
			return res
		}
		for i := range want {
			if got[i] != want[i].Verdict {
				res.Findings = append(res.Findings, find("json|verdict|"+want[i].Verdict+"->"+got[i]+"|"+covTag(c.Cov), fmt.Sprintf("test %s constructed to %s is %s in the JSON report", want[i].Name, want[i].Verdict, got[i]), detail))
				break
			}
		}
		if doc.Summary.Skips != ns || (doc.Summary.Fails > 0) != (nf > 0) {
			res.Findings = append(res.Findings, find("json|summary|"+covTag(c.Cov), fmt.Sprintf("summary %+v for %d failed / %d skipped tests", doc.Summary, nf, ns), detail))
		}
		return res
	}
	mm := reCounts.FindStringSubmatch(so.String() + se.String())
	if mm == nil {
		res.Findings = append(res.Findings, find("text|no-counts|"+covTag(c.Cov), "no '<n> passed, <n> failed, <n> skipped, <n> total' line printed", detail))
		return res
	}
	n := func(i int) int { v, _ := strconv.Atoi(mm[i]); return v }
	if n(1) != np || n(2) != nf || n(3) != ns || n(4) != len(want) || n(1)+n(2)+n(3) != n(4) {
		res.Findings = append(res.Findings, find("text|counts|"+covTag(c.Cov), fmt.Sprintf("printed %s; constructed %d passed, %d failed, %d skipped, %d total", mm[0], np, nf, ns, len(want)), detail))
	}
	return res
}

func trunc(s string, n int) string {
	if len(s) > n {
		return s[:n] + "..."
	}
	return s
}

func run(c Case) engine.Result {
	switch c.Kind {
	case "seq":
		return runSeq(c)
	case "flow":
		return runFlow(c)
	case "cli":
		return runCLI(c)
	}
	panic("kind " + c.Kind)
}

// ---------------------------------------------------------------------------
// enumeration

func applicable(m mainT, it item) bool { return m.Rich || !it.Rich }

func idsOf(pred func(item) bool) []string {
	var out []string
	for _, it := range items {
		if pred(it) {
			out = append(out, it.ID)
		}
	}
	return out
}

func gen10(tier string, emit func(Case)) {
	thorough := tier == "thorough"
	all := idsOf(func(item) bool { return true })
	inter := idsOf(func(it item) bool { return it.Class == "writer" || it.Class == "reader" || it.Class == "group" })
	// a reduced interaction alphabet for triples in the quick tier: the writers that touch state
	// shared beyond one interpreter's context, and the readers that look at it
	coreSet := map[string]bool{"w_table_merge_then_set": true, "r_table_merge": true, "w_table_set": true, "w_table_merge": true, "w_inject": true, "w_mock": true, "w_mock_fn": true, "w_fixed_time": true, "w_backend_health": true, "w_header": true, "w_ratecounter": true, "w_penaltybox": true, "w_regex": true, "w_fail_after_write": true, "g_stateful": true, "g_shadow": true, "g_mock": true,
		"r_table": true, "r_inject": true, "r_mock": true, "r_time": true, "r_backend_health": true, "r_header": true, "r_rate": true, "r_regex": true, "r_state": true}
	core := idsOf(func(it item) bool { return coreSet[it.ID] })

	for _, m := range mains {
		ok := func(id string) bool { return applicable(m, items[itemIndex[id]]) }
		for _, cov := range []bool{false, true} {
			// (a) every item alone
			emit(Case{Kind: "seq", Main: m.Name, Cov: cov})
			for _, a := range all {
				if ok(a) {
					emit(Case{Kind: "seq", Main: m.Name, Items: []string{a}, Cov: cov})
				}
			}
			// (b) every ordered pair of distinct items: whole alphabet on the first rich and the first
			// minimal main (thorough: on every main); interaction alphabet elsewhere
			pairSet := inter
			if thorough || m.Name == "richA" || m.Name == "minimal" {
				pairSet = all
			}
			for _, a := range pairSet {
				for _, b := range pairSet {
					if a != b && ok(a) && ok(b) {
						emit(Case{Kind: "seq", Main: m.Name, Items: []string{a, b}, Cov: cov})
					}
				}
			}
			// (c) every ordered triple of distinct items of the interaction alphabet (quick: core subset, richA only)
			tri := core
			if thorough {
				tri = inter
			} else if m.Name != "richA" {
				tri = nil
			}
			for _, a := range tri {
				for _, b := range tri {
					for _, d := range tri {
						if a != b && b != d && a != d && ok(a) && ok(b) && ok(d) {
							emit(Case{Kind: "seq", Main: m.Name, Items: []string{a, b, d}, Cov: cov})
						}
					}
				}
			}
		}
	}
	// (d) the whole alphabet in one file, forwards and backwards
	for _, m := range mains {
		var fw []string
		for _, a := range all {
			if applicable(m, items[itemIndex[a]]) {
				fw = append(fw, a)
			}
		}
		bw := make([]string, len(fw))
		for i := range fw {
			bw[len(fw)-1-i] = fw[i]
		}
		for _, cov := range []bool{false, true} {
			emit(Case{Kind: "seq", Main: m.Name, Items: fw, Cov: cov})
			emit(Case{Kind: "seq", Main: m.Name, Items: bw, Cov: cov})
		}
	}
	// (e) flows
	devs := 1
	if thorough {
		devs = 2
	}
	genFlows(devs, func(cont string, arms []int, f Flow) {
		for _, in := range inputs(f.Uses) {
			emit(Case{Kind: "flow", Main: "flow", Cont: cont, Arms: arms, Sets: in})
		}
	})
	// (f) the real binary: every item alone, and every pair of verdict classes {pass, fail, skip, runtime}
	cliItems := []string{"assert_true_1_hold", "assert_true_1_fail", "rt_undeffn", "ann_skip_failing", "multi_mixed", "ann_skip_multi", "g_basic", "seq_fail_then_pass"}
	for _, js := range []bool{false, true} {
		for _, cov := range []bool{false, true} {
			emit(Case{Kind: "cli", Main: "minimal", JSON: js, Cov: cov})
			for _, a := range cliItems {
				emit(Case{Kind: "cli", Main: "minimal", Items: []string{a}, JSON: js, Cov: cov})
				for _, b := range cliItems {
					if a != b {
						emit(Case{Kind: "cli", Main: "minimal", Items: []string{a, b}, JSON: js, Cov: cov})
					}
				}
			}
			if thorough {
				for _, a := range all {
					if !items[itemIndex[a]].Rich {
						emit(Case{Kind: "cli", Main: "minimalBackend", Items: []string{a}, JSON: js, Cov: cov})
					} else {
						emit(Case{Kind: "cli", Main: "richA", Items: []string{a}, JSON: js, Cov: cov})
					}
				}
			}
		}
	}
}

func init() {
	engine.Register(engine.Spec[Case]{
		ID:    "C10",
		Level: "exploration",
		Rule: "seq: test files assembled from an alphabet of items with constructed verdicts (every assert.* function holding / failing / failing with a custom message, state assertions after testing.call_subroutine, 9 runtime-error shapes, assertion sequences, assertions under if / else-if / switch / block / return, @skip, @suite, multiple @scope, scope by name suffix; writers of every piece of tester-visible state: tables, injected variables, mocks, fixed time, override host, backend health, headers, rate counters, penalty boxes, regex groups, backend, logs, error/restart/state/called records, locals, per-scope objects; readers that log and assert what they see; describe groups) — every item alone, every ordered pair, every ordered triple of the interaction alphabet, and the whole alphabet forwards and backwards, x 4 main VCLs x coverage off/on, run in-process with the options of `falco test`; flow: generated mains = 15 container shapes (if, if-else, else-if chains incl. elsif/elseif, switch with fallthrough/default/regex case, bare block, nested ifs, regex-condition chain, functional subroutine, repeated ifs) x arms filled from 38 leaf statements with at most k arms deviating from the default (k = 1 quick, 2 thorough) x every input vector over the conditions the program reads, each run with and without coverage; cli: the real binary in text and -json mode x coverage on selections of items. non-trivial = at least one test in the file; distinct = distinct (main, file, coverage)",
		Gen:  gen10,
		Key: func(c Case) string {
			return c.Kind + "\x00" + c.Main + "\x00" + strings.Join(c.Items, ",") + "\x00" + fmt.Sprint(c.Cov, c.JSON) + "\x00" + c.Cont + fmt.Sprint(c.Arms) + "\x00" + strings.Join(c.Sets, ";")
		},
		Run: func(c Case) engine.Result { return engine.SafeRun(func() engine.Result { return run(c) }) },
		Assumptions: []string{
			"line/position numbers inside error texts and the '(file line:col)' suffix of log lines are normalised before comparing runs: they depend on where a test sits in the file, which the property does not speak about",
			"elapsed_time is ignored",
			"a test's solo baseline is computed in the same worker process; a difference is confirmed by three fresh-process replays before it is reported",
			"independence is demanded of ungrouped tests only; tests inside describe share an interpreter by design",
			"the JSON summary counts assertions, not tests (a failed assertion is counted by the assertion and again by the runner); only skips == skipped cases, fails > 0 <=> a failed case, and asserts == passes + fails are demanded of it",
		},
	})
}
