// Package c13: evaluation changes only what it names (frame-condition oracle).
package c13

import (
	"fmt"
	"regexp"
	"sort"
	"strings"
	"time"

	"verif/mc/engine"
	"verif/mc/sim"
)

// Case is one probe: 1–2 statements executed between pool snapshots.
type Case struct {
	Scope   string   `json:"scope"`
	Kind    string   `json:"kind"` // set | cond | hist | call
	Stmts   []string `json:"stmts"`
	Targets []string `json:"targets"` // pool names the statements are allowed to change ("" for none)
	Form    string   `json:"form"`    // class-key part: expression form
	NoPrime bool     `json:"no_prime,omitempty"` // the caller has matched no regular expression before the statements
}

type poolVar struct {
	name, typ, init string
}

var locals = []poolVar{
	{"var.i1", "INTEGER", "7"}, {"var.i2", "INTEGER", "-130"}, // |i2| > 63: a shift / rotate count that has to be reduced
	{"var.f1", "FLOAT", "1.5"}, {"var.f2", "FLOAT", "-2.25"},
	{"var.s1", "STRING", `"abc"`}, {"var.s2", "STRING", `"x1"`},
	{"var.b1", "BOOL", "true"}, {"var.b2", "BOOL", "false"},
	{"var.r1", "RTIME", "90s"}, {"var.r2", "RTIME", "2s"},
	{"var.ip1", "IP", `"10.0.0.1"`}, {"var.ip2", "IP", `"192.168.0.9"`},
	{"var.t1", "TIME", `std.integer2time(1700000000)`},
	// declared, never assigned: a not-set STRING
	{"var.sn", "STRING", ""},
}

// objects writable/readable per scope
var scopeObjs = map[string][]string{
	"recv":    {"req"},
	"miss":    {"req", "bereq"},
	"fetch":   {"req", "bereq", "beresp"},
	"error":   {"req", "obj"},
	"deliver": {"req", "resp"},
}

var scopes = []string{"recv", "miss", "fetch", "error", "deliver"}

func headersOf(scope string) []string {
	var hs []string
	for _, o := range scopeObjs[scope] {
		hs = append(hs, o+".http.Foo", o+".http.Bar", o+".http.Baz")
	}
	return hs
}

func poolNames(scope string) []string {
	var ns []string
	for _, l := range locals {
		ns = append(ns, l.name)
	}
	ns = append(ns, headersOf(scope)...)
	for _, o := range scopeObjs[scope] {
		ns = append(ns, o+".http.Bar:k1", o+".http.Bar:k2")
	}
	ns = append(ns, "re.group.0", "re.group.1", "re.group.2")
	if scope == "error" {
		ns = append(ns, "obj.response")
	}
	return ns
}

func snapshot(scope, tag string) string {
	var b strings.Builder
	for _, n := range poolNames(scope) {
		fmt.Fprintf(&b, "  log \"%s|%s=\" %s;\n", tag, n, n)
		// the set/not-set distinction of strings is part of the value
		if strings.Contains(n, ".http.") || strings.HasPrefix(n, "re.group") || typeOf(n) == "STRING" {
			fmt.Fprintf(&b, "  if (%s) { log \"%s|%s?=set\"; } else { log \"%s|%s?=notset\"; }\n", n, tag, n, tag, n)
		}
	}
	return b.String()
}

const helpers = `
acl ac1 { "10.0.0.0"/24; }
table tb1 { "k": "v" }
sub callee2 {
  declare local var.i1 INTEGER;
  set var.i1 = 55;
  if (req.http.Foo ~ "(f)(v)") { set req.http.Z2 = re.group.1; }
}
sub callee1 {
  declare local var.i1 INTEGER;
  declare local var.s1 STRING;
  declare local var.b1 BOOL;
  set var.i1 = 99;
  set var.s1 = "inner";
  set var.b1 = false;
  if (req.http.Foo ~ "^(.)(.)") { set req.http.Z1 = re.group.2; }
  call callee2;
}
sub fs(STRING var.p) STRING {
  declare local var.s1 STRING;
  set var.s1 = "inner";
  set var.p = var.p "z";
  return var.p;
}
sub fi(INTEGER var.p) INTEGER {
  declare local var.i1 INTEGER;
  set var.i1 = 42;
  set var.p += 1;
  set var.p *= 2;
  return var.p;
}
sub ff(FLOAT var.p) FLOAT { set var.p += 1.5; return var.p; }
sub fb(BOOL var.p) BOOL { set var.p = !var.p; return var.p; }
sub fr(RTIME var.p) RTIME { set var.p += 5s; return var.p; }
sub fip(IP var.p) IP { set var.p = "127.0.0.9"; return var.p; }
sub ft(TIME var.p) TIME { set var.p += 5s; return var.p; }
sub f2(STRING var.a, INTEGER var.b) STRING {
  set var.b -= 1;
  set var.a = var.a var.b;
  if (var.a ~ "(a)(b)") { set var.a = re.group.2; }
  return var.a;
}
sub fnest(STRING var.p) STRING {
  declare local var.s2 STRING;
  set var.s2 = fs(var.p);
  set var.p = fs(var.s2);
  call callee1;
  return var.p;
}
`

// Program renders the VCL for a case.
// regexProgram: REGEX locals cannot be logged; each is observed through matches against fixed subjects.
// A REGEX local that was never assigned is the unsatisfiable regex.
func regexProgram(c Case) string {
	var b strings.Builder
	b.WriteString("sub fre(STRING var.s, REGEX var.p) BOOL {\n  if (var.s ~ var.p) { return true; }\n  return false;\n}\n")
	b.WriteString("sub fre2(REGEX var.p, REGEX var.q) BOOL {\n  declare local var.inner REGEX;\n  declare local var.t STRING;\n  set var.inner = \"^x\";\n  set var.t = \"abc\";\n  if (var.t ~ var.p) { return true; }\n  return false;\n}\n")
	b.WriteString("sub probe {\n  declare local var.re1 REGEX;\n  declare local var.re2 REGEX;\n  declare local var.re3 REGEX;\n  declare local var.b1 BOOL;\n  declare local var.sabc STRING;\n  declare local var.sxyz STRING;\n  declare local var.sempty STRING;\n  set var.sabc = \"abc\";\n  set var.sxyz = \"xyz\";\n  set var.sempty = \"\";\n  set var.re3 = \"^x\";\n")
	snap := func(tag string) {
		for _, n := range []string{"var.re1", "var.re2", "var.re3"} {
			for _, subj := range []string{"abc", "xyz", "empty"} {
				fmt.Fprintf(&b, "  if (var.s%s ~ %s) { log \"%s|%s~%s=match\"; } else { log \"%s|%s~%s=nomatch\"; }\n", subj, n, tag, n, subj, tag, n, subj)
			}
		}
	}
	snap("S0")
	for i, st := range c.Stmts {
		b.WriteString("  " + st + "\n")
		snap(fmt.Sprintf("S%d", i+1))
	}
	b.WriteString("}\n")
	return b.String()
}

func Program(c Case) string {
	if c.Kind == "regex" {
		return regexProgram(c)
	}
	var b strings.Builder
	b.WriteString(helpers)
	b.WriteString("sub probe {\n")
	for _, l := range locals {
		fmt.Fprintf(&b, "  declare local %s %s;\n", l.name, l.typ)
	}
	for _, l := range locals {
		if l.init != "" {
			fmt.Fprintf(&b, "  set %s = %s;\n", l.name, l.init)
		}
	}
	for _, o := range scopeObjs[c.Scope] {
		fmt.Fprintf(&b, "  set %s.http.Foo = \"fv\";\n  set %s.http.Bar = \"k1=v1,k2=v2\";\n  unset %s.http.Baz;\n", o, o, o)
	}
	// make the capture groups defined before the first snapshot
	if !c.NoPrime {
		b.WriteString("  if (var.s1 ~ \"(a)(b)\") { }\n")
	}
	b.WriteString(snapshot(c.Scope, "S0"))
	for i, s := range c.Stmts {
		b.WriteString("  " + s + "\n")
		b.WriteString(snapshot(c.Scope, fmt.Sprintf("S%d", i+1)))
	}
	b.WriteString("}\n")
	return b.String()
}

type typed struct{ text, form string }

// exprs builds the typed expression alphabet up to depth.
func exprs(scope string, depth int) map[string][]typed {
	hdr := scopeObjs[scope][len(scopeObjs[scope])-1] + ".http.Foo"
	cur := map[string][]typed{
		"INTEGER": {{"var.i1", "var"}, {"var.i2", "var"}, {"5", "lit"}},
		"FLOAT":   {{"var.f1", "var"}, {"var.f2", "var"}, {"2.5", "lit"}},
		"STRING":  {{"var.s1", "var"}, {"var.s2", "var"}, {`"lit"`, "lit"}, {hdr, "hdr"}, {"req.http.Baz", "hdr-notset"}, {"var.sn", "var-notset"}},
		"BOOL":    {{"var.b1", "var"}, {"var.b2", "var"}, {"true", "lit"}},
		"RTIME":   {{"var.r1", "var"}, {"var.r2", "var"}, {"5s", "lit"}},
		"IP":      {{"var.ip1", "var"}, {"var.ip2", "var"}},
		"TIME":    {{"var.t1", "var"}, {"now", "var"}},
	}
	if scope == "error" {
		// a STRING of the context that is held by reference
		cur["STRING"] = append(cur["STRING"], typed{"obj.response", "ctx"})
	}
	for d := 1; d <= depth; d++ {
		next := map[string][]typed{}
		for k, v := range cur {
			next[k] = append(next[k], v...)
		}
		add := func(t string, text, form string) { next[t] = append(next[t], typed{text, form}) }
		// at depth 2 only combine var-rooted operands to keep the product bounded
		pick := func(t string) []typed {
			if d == 1 {
				return cur[t]
			}
			var out []typed
			for _, e := range cur[t] {
				if e.form != "lit" && e.form != "var" && e.form != "hdr" && e.form != "hdr-notset" && e.form != "var-notset" && e.form != "ctx" {
					out = append(out, e)
				}
			}
			// plus one variable so that mixed depth occurs
			out = append(out, cur[t][0])
			return out
		}
		// a parenthesised operand and an if() expression yield the stored value of the variable they select
		for _, t := range []struct{ typ, other string }{{"INTEGER", "var.i2"}, {"FLOAT", "var.f2"}, {"RTIME", "var.r2"}} {
			for _, e := range pick(t.typ) {
				if e.form == "lit" {
					continue
				}
				add(t.typ, "("+e.text+")", "group("+e.form+")")
				add(t.typ, "if(var.b1, "+e.text+", "+t.other+")", "ifnum("+e.form+")")
				add(t.typ, "if(var.b2, "+t.other+", "+e.text+")", "ifnum("+e.form+")")
				if d == 1 {
					// the unary operator applied to each of these forms, already in the quick tier: an operator that
					// works in place on its operand must not reach the variable through a group or an if()
					add(t.typ, "-("+e.text+")", "neg(group("+e.form+"))")
					add(t.typ, "-if(var.b1, "+e.text+", "+t.other+")", "neg(ifnum("+e.form+"))")
					add(t.typ, "-if(var.b2, "+t.other+", "+e.text+")", "neg(ifnum("+e.form+"))")
					add(t.typ, "(-"+e.text+")", "group(neg("+e.form+"))")
				}
			}
		}
		if d == 1 {
			for _, e := range pick("BOOL") {
				if e.form != "lit" {
					add("BOOL", "(!("+e.text+"))", "not(group("+e.form+"))")
				}
			}
		}
		for _, e := range pick("INTEGER") {
			add("INTEGER", "-"+e.text, "neg("+e.form+")")
			add("STRING", "std.itoa("+e.text+")", "fn:std.itoa("+e.form+")")
			add("INTEGER", "fi("+e.text+")", "usersub:fi("+e.form+")")
			add("TIME", "std.integer2time("+e.text+")", "fn:std.integer2time("+e.form+")")
		}
		for _, e := range pick("FLOAT") {
			add("FLOAT", "-"+e.text, "neg("+e.form+")")
			add("FLOAT", "math.floor("+e.text+")", "fn:math.floor("+e.form+")")
			add("FLOAT", "ff("+e.text+")", "usersub:ff("+e.form+")")
		}
		for _, e := range pick("RTIME") {
			add("RTIME", "-"+e.text, "neg("+e.form+")")
			add("RTIME", "fr("+e.text+")", "usersub:fr("+e.form+")")
		}
		for _, e := range pick("BOOL") {
			add("BOOL", "(!"+e.text+")", "not("+e.form+")")
			add("BOOL", "fb("+e.text+")", "usersub:fb("+e.form+")")
			add("STRING", "if("+e.text+", var.s1, var.s2)", "ifexpr("+e.form+")")
		}
		for _, e := range pick("IP") {
			add("IP", "fip("+e.text+")", "usersub:fip("+e.form+")")
			add("BOOL", "("+e.text+" ~ ac1)", "aclmatch("+e.form+")")
		}
		for _, e := range pick("TIME") {
			if d == 1 && e.form == "var" {
				// TIME +/- RTIME as a term of a concatenation (the only place the grammar allows it without an assignment)
				add("STRING", "\"at \" "+e.text+" + 5m \" GMT\"", "concat-timeplus("+e.form+")")
				add("STRING", "\"at \" "+e.text+" - 5m \" GMT\"", "concat-timeminus("+e.form+")")
				add("STRING", "\"at \" "+e.text+" + var.r1 \" GMT\"", "concat-timeplus-var("+e.form+")")
			}
			add("TIME", "ft("+e.text+")", "usersub:ft("+e.form+")")
			add("TIME", "time.add("+e.text+", 10s)", "fn:time.add("+e.form+")")
			add("STRING", "strftime({\"%s\"}, "+e.text+")", "fn:strftime("+e.form+")")
		}
		for _, e := range pick("STRING") {
			add("STRING", "std.toupper("+e.text+")", "fn:std.toupper("+e.form+")")
			add("STRING", "regsub("+e.text+", \"(b)\", \"<\\1>\")", "fn:regsub("+e.form+")")
			add("INTEGER", "std.strlen("+e.text+")", "fn:std.strlen("+e.form+")")
			add("INTEGER", "std.atoi("+e.text+")", "fn:std.atoi("+e.form+")")
			add("STRING", "fs("+e.text+")", "usersub:fs("+e.form+")")
			add("STRING", "fnest("+e.text+")", "usersub:fnest("+e.form+")")
			add("STRING", "f2("+e.text+", var.i1)", "usersub:f2("+e.form+",var)")
			add("BOOL", "("+e.text+" ~ \"(b)(c)?\")", "regex("+e.form+")")
			add("BOOL", "("+e.text+" !~ \"(b)(c)?\")", "notregex("+e.form+")")
			add("STRING", "table.lookup(tb1, "+e.text+", \"d\")", "fn:table.lookup("+e.form+")")
		}
		bin := func(t, res, op, form string) {
			for _, a := range pick(t) {
				for _, b2 := range pick(t) {
					add(res, "("+a.text+" "+op+" "+b2.text+")", form+"("+a.form+","+b2.form+")")
				}
			}
		}
		bin("INTEGER", "BOOL", "==", "eq")
		bin("INTEGER", "BOOL", "<", "lt")
		bin("FLOAT", "BOOL", ">=", "ge")
		bin("RTIME", "BOOL", ">", "gt")
		bin("STRING", "BOOL", "==", "eq")
		bin("STRING", "BOOL", "!=", "ne")
		bin("BOOL", "BOOL", "&&", "and")
		bin("BOOL", "BOOL", "||", "or")
		for _, a := range pick("STRING") {
			for _, t := range []string{"STRING", "INTEGER", "FLOAT", "BOOL", "RTIME", "IP", "TIME"} {
				for _, b2 := range pick(t) {
					if b2.form == "lit" && t != "STRING" {
						continue
					}
					if strings.HasPrefix(b2.text, "-") || strings.HasPrefix(b2.text, "(") {
						continue
					}
					add("STRING", a.text+" "+b2.text, "concat("+a.form+","+t+":"+b2.form+")")
					if t == "STRING" {
						add("STRING", a.text+" + "+b2.text, "plus("+a.form+","+b2.form+")")
					}
				}
			}
		}
		cur = next
	}
	return cur
}

var assignOps = []string{"=", "+=", "-=", "*=", "/=", "%=", "|=", "&=", "^=", "<<=", ">>=", "rol=", "ror=", "&&=", "||="}

func typeOf(name string) string {
	for _, l := range locals {
		if l.name == name {
			return l.typ
		}
	}
	return "STRING"
}

// compatible says which value types are worth crossing with a target type
// (everything else fails the statement and is skipped anyway).
func compatible(target string) []string {
	switch target {
	case "INTEGER", "FLOAT":
		return []string{"INTEGER", "FLOAT", "RTIME", "STRING"}
	case "RTIME":
		return []string{"RTIME", "INTEGER", "FLOAT"}
	case "TIME":
		return []string{"TIME", "RTIME"}
	case "BOOL":
		return []string{"BOOL", "STRING"}
	case "IP":
		return []string{"IP", "STRING"}
	}
	return []string{"STRING", "INTEGER", "FLOAT", "BOOL", "RTIME", "IP", "TIME"}
}

func gen(tier string, emit func(Case)) {
	depth := 1
	if tier == "thorough" {
		depth = 2
	}
	for _, sc := range scopes {
		ex1 := exprs(sc, 1)
		exN := ex1
		if depth > 1 {
			exN = exprs(sc, depth)
		}
		// A. set T op= E — all operators with depth-1 expressions; "=" with the deep ones
		var targets []string
		for _, l := range locals {
			targets = append(targets, l.name)
		}
		hs := headersOf(sc)
		targets = append(targets, hs...)
		for _, o := range scopeObjs[sc] {
			targets = append(targets, o+".http.Bar:k1", o+".http.Baz:nk")
		}
		for _, t := range targets {
			tt := typeOf(t)
			for _, vt := range compatible(tt) {
				for _, op := range assignOps {
					if !executable(sc, t, op, vt, ex1[vt]) {
						continue
					}
					src := ex1[vt]
					if op == "=" {
						src = exN[vt]
					}
					for _, e := range src {
						if e.text == t {
							continue
						}
						emit(Case{Scope: sc, Kind: "set", Stmts: []string{fmt.Sprintf("set %s %s %s;", t, op, e.text)},
							Targets: []string{t}, Form: fmt.Sprintf("set %s %s %s %s", kindOf(t), op, vt, e.form)})
					}
				}
			}
		}
		// unset / add on headers
		for _, h := range hs {
			emit(Case{Scope: sc, Kind: "set", Stmts: []string{"unset " + h + ";"}, Targets: []string{h}, Form: "unset hdr"})
			emit(Case{Scope: sc, Kind: "set", Stmts: []string{"add " + h + " = var.s1;"}, Targets: []string{h}, Form: "add hdr"})
		}
		for _, o := range scopeObjs[sc] {
			emit(Case{Scope: sc, Kind: "set", Stmts: []string{"unset " + o + ".http.Bar:k1;"}, Targets: []string{o + ".http.Bar:k1"}, Form: "unset field"})
		}
		// B. bare conditions and declare-with-value: nothing may change
		for _, e := range exN["BOOL"] {
			emit(Case{Scope: sc, Kind: "cond", Stmts: []string{"if " + paren(e.text) + " { }"}, Targets: nil, Form: "cond " + e.form})
		}
		for _, e := range exN["STRING"] {
			emit(Case{Scope: sc, Kind: "cond", Stmts: []string{"if (" + e.text + ") { }"}, Targets: nil, Form: "cond-str " + e.form})
			emit(Case{Scope: sc, Kind: "cond", Stmts: []string{"log " + e.text + ";"}, Targets: nil, Form: "log " + e.form})
		}
		for _, t := range []string{"INTEGER", "FLOAT", "RTIME", "TIME", "IP", "BOOL"} {
			for _, e := range exN[t] {
				emit(Case{Scope: sc, Kind: "cond", Stmts: []string{fmt.Sprintf("declare local var.fresh %s; set var.fresh = %s;", t, e.text)}, Targets: nil, Form: "fresh " + t + " " + e.form})
			}
		}
		// C. two-step histories: copy then modify the copy
		for _, a := range locals {
			for _, b := range locals {
				if a.name == b.name || a.typ != b.typ {
					continue
				}
				for _, op := range assignOps {
					if op == "=" {
						continue
					}
					for _, lit := range litsFor(a.typ) {
						emit(Case{Scope: sc, Kind: "hist", Stmts: []string{
							fmt.Sprintf("set %s = %s;", a.name, b.name),
							fmt.Sprintf("set %s %s %s;", a.name, op, lit)},
							Targets: []string{a.name}, Form: fmt.Sprintf("copy-then %s %s", a.typ, op)})
					}
				}
			}
		}
		for _, h := range hs {
			emit(Case{Scope: sc, Kind: "hist", Stmts: []string{"set var.s1 = " + h + ";", "set var.s1 = var.s1 \"z\";"}, Targets: []string{"var.s1"}, Form: "copy-hdr-then-append"})
			emit(Case{Scope: sc, Kind: "hist", Stmts: []string{"set " + h + " = var.s1;", "set " + h + " = " + h + " \"z\";"}, Targets: []string{h}, Form: "copy-to-hdr-then-append"})
			for _, h2 := range hs {
				if h2 != h {
					emit(Case{Scope: sc, Kind: "hist", Stmts: []string{"set " + h + " = " + h2 + ";", "set " + h + " = " + h + " \"z\";"}, Targets: []string{h}, Form: "copy-hdr-hdr-then-append"})
				}
			}
		}
		// C2. declare-with-initialiser, then modify either name: the other one must keep its value
		for _, a := range locals {
			for _, op := range assignOps {
				for _, lit := range litsFor(a.typ) {
					if !executable(sc, a.name, op, a.typ, []typed{{lit, "lit"}}) {
						continue
					}
					emit(Case{Scope: sc, Kind: "hist", Stmts: []string{
						fmt.Sprintf("declare local var.fresh %s = %s;", a.typ, a.name),
						fmt.Sprintf("set var.fresh %s %s;", op, lit)},
						Targets: nil, Form: fmt.Sprintf("declare-init-then-modify-copy %s %s", a.typ, op)})
				}
			}
		}
		// D. subroutine calls
		emit(Case{Scope: sc, Kind: "call", Stmts: []string{"call callee1;"}, Targets: []string{"req.http.Z1", "req.http.Z2"}, Form: "call nested"})
		emit(Case{Scope: sc, Kind: "call", Stmts: []string{"call callee2;"}, Targets: []string{"req.http.Z2"}, Form: "call leaf"})
		emit(Case{Scope: sc, Kind: "call", Stmts: []string{"call callee1();"}, Targets: []string{"req.http.Z1", "req.http.Z2"}, Form: "call nested parens"})
		// the same calls, and calls of functional subroutines that match inside, from a caller that has no capture groups yet
		emit(Case{Scope: sc, Kind: "call", NoPrime: true, Stmts: []string{"call callee1;"}, Targets: []string{"req.http.Z1", "req.http.Z2"}, Form: "call nested (caller without captures)"})
		emit(Case{Scope: sc, Kind: "call", NoPrime: true, Stmts: []string{"call callee2;"}, Targets: []string{"req.http.Z2"}, Form: "call leaf (caller without captures)"})
		emit(Case{Scope: sc, Kind: "call", NoPrime: true, Stmts: []string{"set var.s2 = f2(var.s1, var.i1);"}, Targets: []string{"var.s2"}, Form: "usersub:f2 (caller without captures)"})
		emit(Case{Scope: sc, Kind: "call", NoPrime: true, Stmts: []string{"set var.s2 = fnest(var.s1);"}, Targets: []string{"var.s2"}, Form: "usersub:fnest (caller without captures)"})
		emit(Case{Scope: sc, Kind: "call", NoPrime: true, Stmts: []string{"call callee1;", "call callee2;"}, Targets: []string{"req.http.Z1", "req.http.Z2"}, Form: "two calls (caller without captures)"})
		// E. REGEX locals (two never assigned, one assigned): a set changes only its target, a call with REGEX parameters nothing
		for _, t := range []string{"var.re1", "var.re2", "var.re3"} {
			for _, pat := range []string{"^a", "^x", "c$", ""} {
				emit(Case{Scope: sc, Kind: "regex", Stmts: []string{fmt.Sprintf("set %s = \"%s\";", t, pat)}, Targets: []string{t}, Form: "set REGEX local"})
				emit(Case{Scope: sc, Kind: "regex", Stmts: []string{fmt.Sprintf("set %s = \"%s\";", t, pat), "set var.re2 = \"^xy\";"}, Targets: []string{t, "var.re2"}, Form: "set REGEX local twice"})
			}
		}
		for _, call := range []string{`set var.b1 = fre("abc", "^a");`, `set var.b1 = fre("xyz", "^a");`, `set var.b1 = fre2("^a", "^x");`, `set var.b1 = fre(var.sxyz, var.re3);`, `set var.b1 = fre2(var.re3, var.re1);`} {
			emit(Case{Scope: sc, Kind: "regex", Stmts: []string{call}, Targets: nil, Form: "call with REGEX parameters"})
			emit(Case{Scope: sc, Kind: "regex", Stmts: []string{call, `set var.re1 = "c$";`}, Targets: []string{"var.re1"}, Form: "call with REGEX parameters, then set"})
		}
	}
}

var execMemo = map[string]bool{}

// executable probes whether `set <target> <op> <value of type vt>` runs at all on
// the tree under test (variable and literal form); combinations that never run
// are type errors and are not crossed with the whole expression alphabet.
func executable(sc, target, op, vt string, atoms []typed) bool {
	k := sc + "|" + kindOf(target) + "|" + op + "|" + vt
	if v, ok := execMemo[k]; ok {
		return v
	}
	ok := false
	for _, a := range atoms {
		if a.form != "var" && a.form != "lit" && a.form != "hdr" {
			continue
		}
		if a.text == target {
			continue
		}
		c := Case{Scope: sc, Stmts: []string{fmt.Sprintf("set %s %s %s;", target, op, a.text)}}
		if _, err := runNoPanic(Program(c), sc); err == nil {
			ok = true
			break
		}
	}
	execMemo[k] = ok
	return ok
}

func paren(s string) string {
	if strings.HasPrefix(s, "(") {
		return s
	}
	return "(" + s + ")"
}

func litsFor(t string) []string {
	switch t {
	case "INTEGER":
		return []string{"2"}
	case "FLOAT":
		return []string{"2.5", "2"}
	case "RTIME":
		return []string{"3s", "2"}
	case "TIME":
		return []string{"3s"}
	case "BOOL":
		return []string{"true", "false"}
	case "STRING":
		return []string{`"z"`}
	case "IP":
		return []string{`"127.0.0.1"`}
	}
	return nil
}

func kindOf(t string) string {
	if strings.Contains(t, ":") {
		return "hdrfield"
	}
	if strings.Contains(t, ".http.") {
		return "hdr"
	}
	return typeOf(t)
}

// allowed reports whether pool name n may change when target t is assigned.
func allowed(n string, targets []string) bool {
	if strings.HasPrefix(n, "re.group.") {
		return true // excepted by the property; checked separately for calls
	}
	for _, t := range targets {
		if n == t {
			return true
		}
		// whole header vs. its sub-fields, case-insensitive names
		nb, tb := strings.ToLower(strings.SplitN(n, ":", 2)[0]), strings.ToLower(strings.SplitN(t, ":", 2)[0])
		if nb == tb && strings.Contains(nb, ".http.") {
			return true
		}
	}
	return false
}

func parseSnap(logs []string) map[string]map[string]string {
	out := map[string]map[string]string{}
	for _, l := range logs {
		if len(l) < 3 || l[0] != 'S' {
			continue
		}
		bar := strings.IndexByte(l, '|')
		eq := strings.IndexByte(l, '=')
		if bar < 0 || eq < bar {
			continue
		}
		tag, name, val := l[:bar], l[bar+1:eq], l[eq+1:]
		if out[tag] == nil {
			out[tag] = map[string]string{}
		}
		out[tag][name] = val
	}
	return out
}

func run(c Case) engine.Result {
	src := Program(c)
	logs, err := runNoPanic(src, c.Scope)
	if err != nil {
		// the statement is not executable (type error etc.): outside the property
		return engine.Result{Skipped: true}
	}
	snaps := parseSnap(logs)
	res := engine.Result{Outcome: "unchanged", NonTrivial: true}
	var fs []engine.Finding
	changedAny := false
	for i := range c.Stmts {
		before, after := snaps[fmt.Sprintf("S%d", i)], snaps[fmt.Sprintf("S%d", i+1)]
		if before == nil || after == nil {
			return engine.Result{Skipped: true}
		}
		names := make([]string, 0, len(before))
		for n := range before {
			names = append(names, n)
		}
		sort.Strings(names)
		for _, n := range names {
			if before[n] == after[n] {
				continue
			}
			base := strings.TrimSuffix(n, "?")
			if c.Kind == "regex" {
				base = strings.SplitN(base, "~", 2)[0]
			}
			changedAny = true
			strict := c.Kind == "call" // a call must leave even re.group alone
			if strict && strings.HasPrefix(base, "re.group.") || !allowed(base, c.Targets) {
				fs = append(fs, engine.Finding{
					Class: fmt.Sprintf("%s|other=%s", classForm(c), poolKind(base)),
					What:  fmt.Sprintf("`%s` changed %s from %q to %q (scope %s)", c.Stmts[i], base, before[n], after[n], c.Scope),
					Detail: map[string]any{"program": src},
				})
			}
		}
	}
	if changedAny {
		res.Outcome = "changed-target"
	}
	if len(fs) > 0 {
		res.Outcome = "frame-violation"
	}
	res.Findings = dedup(fs)
	return res
}

var ctorRe = regexp.MustCompile(`[A-Za-z_][A-Za-z0-9_.:]*\(`)

// classForm reduces a case's expression form to the set of constructors in it,
// so that one root cause is one class whatever the target and operator were.
func classForm(c Case) string {
	if c.Kind == "hist" || c.Kind == "call" || c.Kind == "regex" {
		return c.Form
	}
	set := map[string]bool{}
	for _, m := range ctorRe.FindAllString(c.Form, -1) {
		set[strings.TrimSuffix(m, "(")] = true
	}
	var ks []string
	for k := range set {
		ks = append(ks, k)
	}
	sort.Strings(ks)
	if len(ks) == 0 {
		return "plain:" + strings.SplitN(c.Form, " ", 2)[0]
	}
	return strings.Join(ks, "+")
}

type panicErr struct{ v any }

func (p panicErr) Error() string { return fmt.Sprint("panic: ", p.v) }

// a crash is a C08 violation, not a frame-condition one: here it only means "not executable"
func runNoPanic(src, scope string) (logs []string, err error) {
	defer func() {
		if r := recover(); r != nil {
			err = panicErr{r}
		}
	}()
	return sim.RunSub(src, scope, "probe")
}

func poolKind(n string) string {
	if strings.HasPrefix(n, "re.group") {
		return "re.group"
	}
	if strings.Contains(n, ":") {
		return "hdrfield"
	}
	if strings.Contains(n, ".http.") {
		return "hdr"
	}
	return "local-" + typeOf(n)
}

func dedup(fs []engine.Finding) []engine.Finding {
	seen := map[string]bool{}
	var out []engine.Finding
	for _, f := range fs {
		if !seen[f.Class] {
			seen[f.Class] = true
			out = append(out, f)
		}
	}
	return out
}

func init() {
	engine.Register(engine.Spec[Case]{
		ID:    "C13",
		Level: "exploration",
		Rule: "every probe statement of the stated alphabet (set T op= E for all 15 operators x pool targets x typed expressions of depth<=1 (quick) / <=2 (thorough); bare conditions, log, fresh-local assignment; copy-then-modify two-step histories; nested calls) in scopes recv/miss/fetch/error/deliver, each run on the real interpreter between snapshots of the whole pool; non-trivial = the statement executed without runtime error (others are skipped, not counted); distinct = distinct (scope, statements) Round 3: the pool has a never-assigned STRING local (set / not-set observed for every STRING local) and obj.response in the error scope; a family of REGEX locals and REGEX parameters observed through matches. Round 4: var.i2 = -130 (a shift / rotate count that has to be reduced).",
		Gen:  gen,
		// the depth-2 alphabet of the thorough tier runs for hours on a loaded machine: a worker starts no further case after
		// 30 minutes and the rest is reported as a cap (exhaustive=false)
		SoftDeadline: map[string]time.Duration{"thorough": 30 * time.Minute},
		Key:  func(c Case) string { return c.Scope + "\x00" + strings.Join(c.Stmts, "\x00") + fmt.Sprint(c.NoPrime) },
		Run:  run,
		Assumptions: []string{
			"snapshots observe variables through VCL `log`, i.e. through the interpreter's own read path",
			"statements the interpreter refuses with a runtime error are outside the property and skipped",
		},
	})
}
