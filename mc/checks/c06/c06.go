// Package c06: request processing follows the Fastly state machine.
// TLA+ model (tla/Lifecycle.tla) checked by TLC; every behaviour of the dumped
// state graph within the deviation bound is compiled to VCL + requests and
// replayed on the real interpreter (conformance).
package c06

import (
	"bufio"
	"encoding/json"
	"fmt"
	"os"
	"os/exec"
	"path/filepath"
	"regexp"
	"sort"
	"strconv"
	"strings"

	"verif/mc/engine"
	"verif/mc/sim"
)

// ---------------------------------------------------------------------------
// TLC state graph

type node struct {
	ID   string            `json:"id"`
	Vars map[string]string `json:"vars"`
	Out  []edge            `json:"out"`
}

type edge struct {
	Action string `json:"action"` // u1 | u2 | none | lookup | ...
	To     string `json:"to"`
}

type graph struct {
	Init  string           `json:"init"`
	Nodes map[string]*node `json:"nodes"`
	Edges int              `json:"edges"`
	TLC   map[string]int   `json:"tlc"`
}

var (
	nodeRe = regexp.MustCompile(`^(-?\d+) \[label="((?:[^"\\]|\\.)*)"`)
	edgeRe = regexp.MustCompile(`^(-?\d+) -> (-?\d+) \[label="(Start|Step)\(\\"([a-z0-9_]+)\\"\)"`)
	varRe  = regexp.MustCompile(`(\w+) = ("[^"]*"|\{[^}]*\}|\w+)`)
)

func runTLC(scratch string) (*graph, error) {
	dir := filepath.Join(scratch, "tlc")
	os.MkdirAll(dir, 0o755)
	src := filepath.Join(verifDir(), "tla")
	for _, f := range []string{"Lifecycle.tla", "Lifecycle.cfg"} {
		b, err := os.ReadFile(filepath.Join(src, f))
		if err != nil {
			return nil, err
		}
		os.WriteFile(filepath.Join(dir, f), b, 0o644)
	}
	cmd := exec.Command("tlc", "-workers", "4", "-dump", "dot,actionlabels", "g.dot", "Lifecycle.tla")
	cmd.Dir = dir
	out, err := cmd.CombinedOutput()
	if err != nil {
		return nil, fmt.Errorf("tlc failed: %v\n%s", err, tail(string(out), 2000))
	}
	text := string(out)
	if !strings.Contains(text, "Model checking completed. No error has been found.") {
		return nil, fmt.Errorf("TLC reports a problem in the model itself:\n%s", tail(text, 3000))
	}
	g := &graph{Nodes: map[string]*node{}, TLC: map[string]int{}}
	if m := regexp.MustCompile(`(\d+) states generated, (\d+) distinct states found`).FindStringSubmatch(text); m != nil {
		g.TLC["states_generated"], _ = strconv.Atoi(m[1])
		g.TLC["distinct_states"], _ = strconv.Atoi(m[2])
	}
	if m := regexp.MustCompile(`depth of the complete state graph search is (\d+)`).FindStringSubmatch(text); m != nil {
		g.TLC["depth"], _ = strconv.Atoi(m[1])
	}
	f, err := os.Open(filepath.Join(dir, "g.dot"))
	if err != nil {
		return nil, err
	}
	defer f.Close()
	sc := bufio.NewScanner(f)
	sc.Buffer(make([]byte, 1<<20), 1<<24)
	for sc.Scan() {
		l := sc.Text()
		if m := edgeRe.FindStringSubmatch(l); m != nil {
			n := g.Nodes[m[1]]
			if n == nil {
				n = &node{ID: m[1]}
				g.Nodes[m[1]] = n
			}
			n.Out = append(n.Out, edge{Action: m[4], To: m[2]})
			g.Edges++
			continue
		}
		if m := nodeRe.FindStringSubmatch(l); m != nil {
			n := g.Nodes[m[1]]
			if n == nil {
				n = &node{ID: m[1]}
				g.Nodes[m[1]] = n
			}
			n.Vars = map[string]string{}
			lab := strings.ReplaceAll(m[2], `\"`, `"`)
			for _, vm := range varRe.FindAllStringSubmatch(lab, -1) {
				n.Vars[vm[1]] = strings.Trim(vm[2], `"`)
			}
			if n.Vars["act"] == "init" {
				g.Init = n.ID
			}
		}
	}
	if g.Init == "" || len(g.Nodes) == 0 {
		return nil, fmt.Errorf("could not parse TLC's state graph dump")
	}
	if d := g.TLC["distinct_states"]; d != 0 && d != len(g.Nodes) {
		return nil, fmt.Errorf("dump has %d nodes but TLC found %d distinct states", len(g.Nodes), d)
	}
	// canonical edge order: default first
	for _, n := range g.Nodes {
		sort.SliceStable(n.Out, func(i, j int) bool { return rank(n.Out[i].Action) < rank(n.Out[j].Action) })
	}
	return g, nil
}

var actionOrder = []string{"none", "u1", "u2", "lookup", "hash", "fetch", "deliver", "pass", "error", "restart", "deliver_ttl0", "deliver_uncacheable", "hit_for_pass"}

func rank(a string) int {
	for i, x := range actionOrder {
		if x == a {
			return i
		}
	}
	return 99
}

func cost(a string) int {
	if a == "none" || a == "u1" {
		return 0
	}
	return 1
}

func tail(s string, n int) string {
	if len(s) > n {
		return s[len(s)-n:]
	}
	return s
}

func verifDir() string {
	if d := os.Getenv("VERIF_DIR"); d != "" {
		return d
	}
	return "/verif"
}

var cached *graph

func loadGraph() *graph {
	if cached != nil {
		return cached
	}
	p := os.Getenv("VERIF_C06_GRAPH")
	if p != "" {
		b, err := os.ReadFile(p)
		if err == nil {
			var g graph
			if json.Unmarshal(b, &g) == nil {
				cached = &g
				return cached
			}
		}
	}
	g, err := runTLC(engine.Scratch())
	if err != nil {
		panic(err)
	}
	cached = g
	return g
}

// ---------------------------------------------------------------------------
// behaviours -> cases

// Step is one transition of a behaviour.
type Step struct {
	Action string `json:"a"`
	Scope  string `json:"s"` // scope in which the action is taken ("idle" for a request start)
	Req    int    `json:"q"`
	Epoch  int    `json:"e"` // restarts at that point
}

// Case is one model behaviour (a path through TLC's graph).
type Case struct {
	Steps []Step `json:"steps"`
	// model predictions per request
	Pred []Prediction `json:"pred"`
	Devs int          `json:"devs"`
	// History: instead of a lifecycle behaviour, a sequence of per-request operations on the
	// state that outlives a request (rate counters, penalty boxes), checked against a map model
	History []string `json:"history,omitempty"`
	// Rewrite: requests whose restarted attempt may look up another URL (see runRewrite)
	Rewrite []string `json:"rewrite,omitempty"`
}

// Prediction is what the model says a client observes for one request.
type Prediction struct {
	URL      string   `json:"url"`
	Scopes   []string `json:"scopes"`   // lifecycle subroutines in the order they run
	Restarts int      `json:"restarts"` // restarts performed
	Failed   bool     `json:"failed"`   // ends in a reported error (restart limit)
	Lookup   bool     `json:"lookup"`   // the last attempt went through a cache lookup decision (hash ran, not via pass)
	Hit      bool     `json:"hit"`      // that lookup was a hit
	Hashed   bool     `json:"hashed"`
}

func enumerate(g *graph, bound int, maxReq int, emit func(Case), edgeSeen map[string]bool) {
	var steps []Step
	var rec func(id string, devs int)
	rec = func(id string, devs int) {
		n := g.Nodes[id]
		done := len(n.Out) == 0
		if n.Vars["scope"] == "idle" && n.Vars["reqNo"] == strconv.Itoa(maxReq) {
			done = true
		}
		if done {
			emit(build(g, steps, devs))
			return
		}
		for _, e := range n.Out {
			c := devs + cost(e.Action)
			if c > bound {
				continue
			}
			req, _ := strconv.Atoi(n.Vars["reqNo"])
			ep, _ := strconv.Atoi(n.Vars["restarts"])
			if n.Vars["scope"] == "idle" {
				req++
				ep = 0
			}
			steps = append(steps, Step{Action: e.Action, Scope: n.Vars["scope"], Req: req, Epoch: ep})
			edgeSeen[id+">"+e.Action] = true
			rec(e.To, c)
			steps = steps[:len(steps)-1]
		}
	}
	rec(g.Init, 0)
}

// edgeCover emits, for every edge the bounded enumeration did not take, the behaviour
// "shortest path to the edge's source, the edge, then default choices to the end", so that
// every transition of TLC's graph is replayed on the implementation at least once.
func edgeCover(g *graph, maxReq int, emit func(Case), seen map[string]bool) {
	type pred struct {
		from   string
		action string
	}
	parent := map[string]pred{g.Init: {}}
	queue := []string{g.Init}
	for len(queue) > 0 {
		id := queue[0]
		queue = queue[1:]
		for _, e := range g.Nodes[id].Out {
			if _, ok := parent[e.To]; !ok {
				parent[e.To] = pred{id, e.Action}
				queue = append(queue, e.To)
			}
		}
	}
	ids := make([]string, 0, len(g.Nodes))
	for id := range g.Nodes {
		ids = append(ids, id)
	}
	sort.Strings(ids)
	stepOf := func(n *node, a string) Step {
		req, _ := strconv.Atoi(n.Vars["reqNo"])
		ep, _ := strconv.Atoi(n.Vars["restarts"])
		if n.Vars["scope"] == "idle" {
			req++
			ep = 0
		}
		return Step{Action: a, Scope: n.Vars["scope"], Req: req, Epoch: ep}
	}
	for _, id := range ids {
		if _, reachable := parent[id]; !reachable {
			continue
		}
		for _, e := range g.Nodes[id].Out {
			if seen[id+">"+e.Action] {
				continue
			}
			// path to id
			var rev []Step
			for cur := id; cur != g.Init; {
				p := parent[cur]
				rev = append(rev, stepOf(g.Nodes[p.from], p.action))
				cur = p.from
			}
			var steps []Step
			for i := len(rev) - 1; i >= 0; i-- {
				steps = append(steps, rev[i])
			}
			steps = append(steps, stepOf(g.Nodes[id], e.Action))
			seen[id+">"+e.Action] = true
			// default continuation
			cur := e.To
			for {
				n := g.Nodes[cur]
				if len(n.Out) == 0 || n.Vars["scope"] == "idle" && n.Vars["reqNo"] == strconv.Itoa(maxReq) {
					break
				}
				d := n.Out[0] // canonical order: default first
				steps = append(steps, stepOf(n, d.Action))
				seen[cur+">"+d.Action] = true
				cur = d.To
			}
			devs := 0
			for _, s := range steps {
				devs += cost(s.Action)
			}
			emit(build(g, steps, devs))
		}
	}
}

func build(g *graph, steps []Step, devs int) Case {
	c := Case{Steps: append([]Step{}, steps...), Devs: devs}
	var cur *Prediction
	viaPass := false
	for _, s := range steps {
		if s.Scope == "idle" {
			c.Pred = append(c.Pred, Prediction{URL: s.Action})
			cur = &c.Pred[len(c.Pred)-1]
			viaPass = false
			continue
		}
		cur.Scopes = append(cur.Scopes, s.Scope)
		switch {
		case s.Scope == "recv":
			viaPass = s.Action == "pass"
			cur.Hashed, cur.Lookup = false, false
		case s.Scope == "hash":
			cur.Hashed = true
			cur.Lookup = !viaPass
		case s.Scope == "hit":
			cur.Hit = true
		case s.Scope == "miss":
			cur.Hit = false
		}
		if s.Scope == "recv" && s.Epoch > 0 {
			// a new attempt: the branch of the previous attempt no longer counts
			cur.Hit = false
		}
		if s.Action == "restart" {
			if s.Epoch == 3 {
				cur.Failed = true
			} else {
				cur.Restarts = s.Epoch + 1
			}
		}
	}
	return c
}

// ---------------------------------------------------------------------------
// compile a behaviour to VCL

func stmtFor(a string, s Step) string {
	alt := (s.Req+s.Epoch)%2 == 0
	switch a {
	case "none":
		return "set req.http.X-None = \"1\";"
	case "lookup", "hash", "fetch", "deliver", "hit_for_pass":
		return "return(" + a + ");"
	case "pass":
		return "return(pass);"
	case "error":
		if alt || s.Scope == "miss" && false {
			return "error 601;"
		}
		return "return(error);"
	case "restart":
		if alt {
			return "restart;"
		}
		return "return(restart);"
	case "deliver_ttl0":
		return "set beresp.ttl = 0s; return(deliver);"
	case "deliver_uncacheable":
		return "set beresp.cacheable = false; return(deliver);"
	}
	panic("action " + a)
}

var lifecycle = []string{"recv", "hash", "hit", "miss", "pass", "fetch", "error", "deliver", "log"}

func compile(c Case) string {
	arms := map[string][]string{}
	for _, s := range c.Steps {
		if s.Scope == "idle" {
			continue
		}
		cond := fmt.Sprintf("req.http.X-Req == \"%d\" && req.restarts == %d", s.Req, s.Epoch)
		arms[s.Scope] = append(arms[s.Scope], fmt.Sprintf("(%s) { %s }", cond, stmtFor(s.Action, s)))
	}
	var b strings.Builder
	b.WriteString("backend origin { .host = \"example.com\"; .port = \"80\"; }\n")
	for _, sc := range lifecycle {
		fmt.Fprintf(&b, "sub vcl_%s {\n", sc)
		if sc == "recv" {
			b.WriteString("  set req.backend = origin;\n")
		}
		if sc == "hash" {
			// what Fastly's own boilerplate does: the key must be derived afresh on every attempt of a request
			b.WriteString("  set req.hash += req.url;\n  set req.hash += req.http.host;\n")
		}
		seen := map[string]bool{}
		first := true
		for _, a := range arms[sc] {
			if seen[a] {
				continue
			}
			seen[a] = true
			if first {
				fmt.Fprintf(&b, "  if %s\n", a)
				first = false
			} else {
				fmt.Fprintf(&b, "  else if %s\n", a)
			}
		}
		b.WriteString("}\n")
	}
	return b.String()
}

// ---------------------------------------------------------------------------
// conformance

var subScope = map[string]string{"recv": "RECV", "hash": "HASH", "hit": "HIT", "miss": "MISS", "pass": "PASS", "fetch": "FETCH", "error": "ERROR", "deliver": "DELIVER", "log": "LOG"}

var histOps = []string{"none", "inc k1 1", "inc k2 1", "inc k1 2", "box k1", "box k2"}

func runHistory(c Case) engine.Result {
	var b strings.Builder
	b.WriteString("backend origin { .host = \"example.com\"; .port = \"80\"; }\nratecounter rc1 { }\npenaltybox pb1 { }\nsub vcl_recv {\n  declare local var.n INTEGER;\n")
	b.WriteString("  log \"has1=\" ratelimit.penaltybox_has(pb1, \"k1\") \" has2=\" ratelimit.penaltybox_has(pb1, \"k2\");\n")
	for i, op := range c.History {
		f := strings.Fields(op)
		var st string
		switch f[0] {
		case "inc":
			st = fmt.Sprintf("set var.n = ratelimit.ratecounter_increment(rc1, \"%s\", %s); log \"inc=\" var.n;", f[1], f[2])
		case "box":
			st = fmt.Sprintf("ratelimit.penaltybox_add(pb1, \"%s\", 2m);", f[1])
		default:
			st = "set req.http.X-None = \"1\";"
		}
		fmt.Fprintf(&b, "  if (req.http.X-Req == \"%d\") { %s }\n", i+1, st)
	}
	b.WriteString("  set var.n = ratelimit.ratecounter_increment(rc1, \"k1\", 0); log \"c1=\" var.n;\n  set var.n = ratelimit.ratecounter_increment(rc1, \"k2\", 0); log \"c2=\" var.n;\n  return(pass);\n}\n")
	src := b.String()
	ip, _ := sim.NewServer(src)
	count := map[string]int{}
	box := map[string]bool{}
	res := engine.Result{NonTrivial: true, Steps: int64(len(c.History)), Outcome: "agrees"}
	b2i := func(v bool) int {
		if v {
			return 1
		}
		return 0
	}
	for i, op := range c.History {
		want := []string{fmt.Sprintf("has1=%d has2=%d", b2i(box["k1"]), b2i(box["k2"]))}
		f := strings.Fields(op)
		switch f[0] {
		case "inc":
			d, _ := strconv.Atoi(f[2])
			count[f[1]] += d
			want = append(want, fmt.Sprintf("inc=%d", count[f[1]]))
		case "box":
			box[f[1]] = true
		}
		want = append(want, fmt.Sprintf("c1=%d", count["k1"]), fmt.Sprintf("c2=%d", count["k2"]))
		o := sim.Observe(ip, "GET", "http://example.com/h", [][2]string{{"X-Req", strconv.Itoa(i + 1)}})
		if o.Panic != "" || strings.Join(o.Logs, "|") != strings.Join(want, "|") {
			res.Outcome = "diverges"
			res.Findings = []engine.Finding{{Class: "persistent-state|" + f[0], What: fmt.Sprintf("history %v, request %d: model predicts logs %q, simulator logs %q (error %q)", c.History, i+1, want, o.Logs, o.Error), Detail: src}}
			return res
		}
	}
	return res
}

// runRewrite: requests whose second attempt looks up another URL than the first (vcl_recv rewrites req.url when
// req.restarts == 1), compared with a map model of the cache: per attempt hit iff the URL is stored; a miss that reaches
// vcl_fetch stores it; what the client sees (subroutines run, X-Cache, cached flag, restarts) is decided by the last attempt.
// op = "<url> <rewrite|-> <restart-on-hit 0|1>" (restart is not available in vcl_miss)
func runRewrite(c Case) engine.Result {
	src := `backend origin { .host = "example.com"; .port = "80"; }
sub vcl_recv {
#FASTLY recv
  if (req.restarts == 1 && req.http.X-Rewrite) {
    set req.url = req.http.X-Rewrite;
  }
  return(lookup);
}
sub vcl_hash {
#FASTLY hash
  return(hash);
}
sub vcl_hit {
#FASTLY hit
  if (req.restarts == 0 && req.http.X-Restart-On-Hit == "1") {
    restart;
  }
  return(deliver);
}
sub vcl_miss {
#FASTLY miss
  return(fetch);
}
sub vcl_fetch {
#FASTLY fetch
  set beresp.ttl = 3600s;
  return(deliver);
}
sub vcl_deliver {
#FASTLY deliver
  return(deliver);
}
sub vcl_log {
#FASTLY log
}
`
	ip, _ := sim.NewServer(src)
	stored := map[string]bool{}
	res := engine.Result{NonTrivial: true, Steps: int64(len(c.Rewrite)), Outcome: "agrees"}
	for i, op := range c.Rewrite {
		f := strings.Fields(op)
		url, rw, onHit := f[0], f[1], f[2] == "1"
		hdr := [][2]string{{"X-Restart-On-Hit", f[2]}}
		if rw != "-" {
			hdr = append(hdr, [2]string{"X-Rewrite", "/" + rw})
		}
		// model
		var want []string
		restarts := 0
		u := url
		hit := stored[u]
		want = append(want, "recv", "hash")
		if hit {
			want = append(want, "hit")
		} else {
			want = append(want, "miss")
		}
		if hit && onHit {
			restarts = 1
			if rw != "-" {
				u = rw
			}
			hit = stored[u]
			want = append(want, "recv", "hash")
			if hit {
				want = append(want, "hit")
			} else {
				want = append(want, "miss")
			}
		}
		if !hit {
			want = append(want, "fetch")
			stored[u] = true
		}
		want = append(want, "deliver", "log")
		o := sim.Observe(ip, "GET", "http://example.com/"+url, hdr)
		var got []string
		for _, fl := range o.Flows {
			got = append(got, strings.ToLower(strings.SplitN(fl, "/", 2)[0]))
		}
		wantX := "MISS"
		if hit {
			wantX = "HIT"
		}
		bad := ""
		switch {
		case o.Panic != "":
			bad = "panic: " + o.Panic
		case strings.Join(got, ">") != strings.Join(want, ">"):
			bad = fmt.Sprintf("subroutines %v, model %v", got, want)
		case o.Restarts != restarts:
			bad = fmt.Sprintf("restarts %d, model %d", o.Restarts, restarts)
		case o.Cached != hit:
			bad = fmt.Sprintf("cached flag %v, model %v", o.Cached, hit)
		case o.Headers["x-cache"] != wantX:
			bad = fmt.Sprintf("X-Cache %q, model %q", o.Headers["x-cache"], wantX)
		}
		if bad != "" {
			res.Outcome = "diverges"
			kind := strings.SplitN(bad, " ", 2)[0]
			res.Findings = []engine.Finding{{Class: "rewrite-history|" + kind, What: fmt.Sprintf("history %v, request %d: simulator reports %s (error %q)", c.Rewrite, i+1, bad, o.Error), Detail: src}}
			return res
		}
	}
	return res
}

func run(c Case) engine.Result {
	if len(c.History) > 0 {
		return runHistory(c)
	}
	if len(c.Rewrite) > 0 {
		return runRewrite(c)
	}
	src := compile(c)
	ip, _ := sim.NewServer(src)
	res := engine.Result{NonTrivial: c.Devs > 0 || len(c.Pred) > 1, Steps: int64(len(c.Steps))}
	var outcome []string
	add := func(cls, what string) {
		for _, f := range res.Findings {
			if f.Class == cls {
				return
			}
		}
		res.Findings = append(res.Findings, engine.Finding{Class: cls, What: what, Detail: map[string]any{"vcl": src, "behaviour": c.Steps}})
	}
	for qi, p := range c.Pred {
		o := sim.Observe(ip, "GET", "http://example.com/"+p.URL, [][2]string{{"X-Req", strconv.Itoa(qi + 1)}})
		if o.Panic != "" {
			add("panic|"+firstDivergence(c, qi, nil), fmt.Sprintf("request %d of behaviour %s: simulator panics: %s", qi+1, brief(c), strings.SplitN(o.Panic, "\n", 2)[0]))
			outcome = append(outcome, "panic")
			break
		}
		var got []string
		for _, f := range o.Flows {
			parts := strings.SplitN(f, "/", 2)
			if len(parts) == 2 && strings.HasPrefix(parts[1], "vcl_") {
				got = append(got, strings.TrimPrefix(parts[1], "vcl_"))
			}
		}
		want := p.Scopes
		if strings.Join(got, ",") != strings.Join(want, ",") {
			add("flow|"+firstDivergence(c, qi, got), fmt.Sprintf("request %d of behaviour %s: model predicts subroutines %v, simulator ran %v (error %q)", qi+1, brief(c), want, got, o.Error))
			outcome = append(outcome, "flow-diverges")
			break // later requests depend on this one's effects
		}
		if p.Failed != (o.Error != "") {
			add(fmt.Sprintf("error-report|failed=%v", p.Failed), fmt.Sprintf("request %d of behaviour %s: model says failed=%v, simulator reports error %q", qi+1, brief(c), p.Failed, o.Error))
		}
		if !p.Failed {
			if o.Restarts != p.Restarts {
				add("restarts", fmt.Sprintf("request %d of behaviour %s: model predicts %d restarts, simulator reports %d", qi+1, brief(c), p.Restarts, o.Restarts))
			}
			if p.Hashed {
				wantX := "MISS"
				if p.Lookup && p.Hit {
					wantX = "HIT"
				}
				if gotX := o.Headers["x-cache"]; gotX != wantX {
					add("x-cache|want="+wantX, fmt.Sprintf("request %d of behaviour %s: branch taken implies X-Cache %s, simulator sends %q", qi+1, brief(c), wantX, gotX))
				}
				if o.Cached != (p.Lookup && p.Hit) {
					add(fmt.Sprintf("cached-flag|want=%v", p.Lookup && p.Hit), fmt.Sprintf("request %d of behaviour %s: the cached flag should be %v, simulator reports %v", qi+1, brief(c), p.Lookup && p.Hit, o.Cached))
				}
			}
		}
		outcome = append(outcome, strings.Join(got, ">"))
	}
	res.Outcome = strings.Join(outcome, " | ")
	if len(res.Findings) > 0 {
		res.Outcome = "diverges"
	}
	return res
}

// firstDivergence names (scope, action) of the model step after which the implementation's
// subroutine sequence first differs for request qi.
func firstDivergence(c Case, qi int, got []string) string {
	var steps []Step
	for _, s := range c.Steps {
		if s.Req == qi+1 && s.Scope != "idle" {
			steps = append(steps, s)
		}
	}
	for i, s := range steps {
		if i >= len(got) || got[i] != s.Scope {
			if i == 0 {
				return "start"
			}
			p := steps[i-1]
			return fmt.Sprintf("%s:%s->%s", p.Scope, p.Action, s.Scope)
		}
	}
	if len(got) > len(steps) && len(steps) > 0 {
		p := steps[len(steps)-1]
		return fmt.Sprintf("%s:%s->end(extra %s)", p.Scope, p.Action, got[len(steps)])
	}
	return "?"
}

func brief(c Case) string {
	var b strings.Builder
	for _, s := range c.Steps {
		if s.Scope == "idle" {
			fmt.Fprintf(&b, " [%s]", s.Action)
			continue
		}
		if s.Action != "none" {
			fmt.Fprintf(&b, " %s:%s", s.Scope, s.Action)
		}
	}
	return strings.TrimSpace(b.String())
}

func bounds(tier string) (int, int) {
	if tier == "thorough" {
		return 5, 3
	}
	return 3, 3
}

func gen06(tier string, emit func(Case)) {
	g := loadGraph()
	bound, maxReq := bounds(tier)
	seen := map[string]bool{}
	enumerate(g, bound, maxReq, emit, seen)
	// single-request behaviours get two more deviations (deep restart chains)
	enumerate(g, bound+2, 1, emit, seen)
	edgeCover(g, maxReq, emit, seen)
	// all histories of 3 requests over the persistent-state operations
	for _, a := range histOps {
		for _, b := range histOps {
			for _, c := range histOps {
				emit(Case{History: []string{a, b, c}})
			}
		}
	}
	// all histories of up to 3 (thorough: 4) requests over {URL a, b} x {no rewrite, rewrite to a, to b} x restart on hit
	var rwOps []string
	for _, u := range []string{"a", "b"} {
		for _, rw := range []string{"-", "a", "b"} {
			for _, h := range []string{"0", "1"} {
				rwOps = append(rwOps, u+" "+rw+" "+h)
			}
		}
	}
	for _, a := range rwOps {
		emit(Case{Rewrite: []string{a}})
		for _, b := range rwOps {
			emit(Case{Rewrite: []string{a, b}})
			for _, c := range rwOps {
				emit(Case{Rewrite: []string{a, b, c}})
				if tier == "thorough" {
					for _, d := range rwOps {
						emit(Case{Rewrite: []string{a, b, c, d}})
					}
				}
			}
		}
	}
}

func init() {
	engine.Register(engine.Spec[Case]{
		ID:    "C06",
		Level: "model_checking",
		Rule: "TLA+ model tla/Lifecycle.tla (documented Fastly lifecycle for up to 3 requests over 2 URLs, restarts <= 3, cache store/lookup) is checked by TLC on all reachable states (invariants: restart bound, vcl_log at most once and last, hit iff stored, first request never hits, failed requests do not log); TLC's dumped state graph is parsed and every behaviour with at most 3 (quick) / 5 (thorough) non-default choices over 3 requests, and at most 5 / 7 for single requests, plus one behaviour through every remaining edge of the graph (full edge coverage), is regenerated as a path, compiled to one VCL program (one arm per request id and restart epoch) plus a request history, run on a fresh real interpreter through ServeHTTP with a stub backend and compared step by step: executed lifecycle subroutines, restarts, reported error, X-Cache, cached flag; plus all 216 histories of 3 requests over rate-counter increments and penalty-box additions on two keys, compared with a map model; plus all histories of up to 3 (thorough: 4) requests over 12 request kinds whose restarted attempt may look up another URL (rewrite in vcl_recv when req.restarts == 1, restart from vcl_hit), compared with a map model of the cache (subroutines run, restarts, cached flag, X-Cache). non-trivial = behaviour with a non-default choice or more than one request",
		Gen:  gen06,
		Key: func(c Case) string {
			var b strings.Builder
			b.WriteString(strings.Join(c.History, ";"))
			if len(c.Rewrite) > 0 {
				b.WriteString("rewrite:" + strings.Join(c.Rewrite, ";"))
			}
			for _, s := range c.Steps {
				fmt.Fprintf(&b, "%s:%s:%d:%d|", s.Scope, s.Action, s.Req, s.Epoch)
			}
			return b.String()
		},
		Run:  run,
		Init: func(string) { sim.InstallStub() },
		Prepare: func(tier string, rep *engine.Report) {
			g, err := runTLC(engine.Scratch())
			if err != nil {
				fmt.Println("C06: " + err.Error())
				rep.Cap("TLC did not complete: " + err.Error())
				return
			}
			b, _ := json.Marshal(g)
			p := filepath.Join(engine.Scratch(), "c06-graph.json")
			os.WriteFile(p, b, 0o644)
			os.Setenv("VERIF_C06_GRAPH", p)
			// edge coverage of the enumeration (measured here once, same enumeration as the workers')
			seen := map[string]bool{}
			bound, maxReq := bounds(tier)
			n := 0
			enumerate(g, bound, maxReq, func(Case) { n++ }, seen)
			enumerate(g, bound+2, 1, func(Case) { n++ }, seen)
			edgeCover(g, maxReq, func(Case) { n++ }, seen)
			rep.Extra["states"] = len(g.Nodes)
			rep.Extra["transitions"] = g.Edges
			rep.Extra["tlc"] = g.TLC
			rep.Extra["model_edges_covered_by_replayed_behaviours"] = len(seen)
			rep.Extra["model_edges_total"] = g.Edges
			rep.Extra["checker_cmd"] = "tlc -dump dot,actionlabels g.dot Lifecycle.tla (INVARIANT Inv)"
		},
		Finish: func(rep *engine.Report) {
			rep.Extra["traces_validated_against_impl"] = rep.Evaluations
			rep.Extra["implementation_transitions_replayed"] = rep.Steps
		},
		Assumptions: []string{
			"the model is written from the Fastly lifecycle documentation; deliver_stale, stale objects and expiry are outside the model (no clock), so is a purge",
			"model behaviours are bound to the code by replay: every behaviour within the deviation bound is executed on the implementation and compared field by field",
		},
	})
}
