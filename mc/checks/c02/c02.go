// Package c02: the parser builds the tree the grammar and precedence table dictate.
package c02

import (
	"fmt"
	"strings"

	"github.com/ysugimoto/falco/v2/lexer"
	"github.com/ysugimoto/falco/v2/parser"

	"verif/mc/engine"
	"verif/mc/gen"
)

// Case is a rendered program with the canonical form of the tree it must parse to.
type Case struct {
	Src    string `json:"src"`
	Want   string `json:"want"`
	Kind   string `json:"kind"`   // expr | prog | lit
	Layout string `json:"layout"` // space | newline | comments
	Key    string `json:"classkey"`
}

type ctx struct {
	name  string
	build func(e *gen.Node) *gen.Node
	atoms bool // only atoms are meaningful here
}

var contexts = []ctx{
	{"set-value", func(e *gen.Node) *gen.Node { return gen.VCL(gen.Sub("f", gen.Set("req.http.A", "=", e))) }, false},
	{"if-cond", func(e *gen.Node) *gen.Node { return gen.VCL(gen.Sub("f", gen.If(e))) }, false},
	{"log", func(e *gen.Node) *gen.Node { return gen.VCL(gen.Sub("f", gen.N("LogStatement", "Value", e))) }, false},
	{"call-arg", func(e *gen.Node) *gen.Node {
		return gen.VCL(gen.Sub("f", gen.Set("req.http.A", "=", gen.Call("fn", e, gen.Str("z")))))
	}, false},
	{"return-value", func(e *gen.Node) *gen.Node {
		s := gen.Sub("f", gen.N("ReturnStatement", "ReturnExpression", e, "HasParenthesis", false))
		s.Set("ReturnType", gen.Ident("STRING"))
		s.Hint("parens", "1")
		return gen.VCL(s)
	}, false},
	{"error-arg", func(e *gen.Node) *gen.Node {
		return gen.VCL(gen.Sub("f", gen.N("ErrorStatement", "Code", gen.Int(600), "Argument", e)))
	}, false},
	{"ifexpr-cond", func(e *gen.Node) *gen.Node {
		return gen.VCL(gen.Sub("f", gen.Set("req.http.A", "=", gen.IfExpr(e, gen.Str("y"), gen.Str("n")))))
	}, false},
	{"ifexpr-then", func(e *gen.Node) *gen.Node {
		return gen.VCL(gen.Sub("f", gen.Set("req.http.A", "=", gen.IfExpr(gen.Ident("c"), e, gen.Str("n")))))
	}, false},
	{"declare-init", func(e *gen.Node) *gen.Node {
		return gen.VCL(gen.Sub("f", gen.N("DeclareStatement", "Name", gen.Ident("var.x"), "ValueType", gen.Ident("STRING"), "Value", e)))
	}, false},
	{"switch-control", func(e *gen.Node) *gen.Node {
		cs := gen.N("CaseStatement", "Test", gen.N("InfixExpression", "Left", nil, "Operator", "==", "Explicit", false, "Right", gen.Str("a")), "Statements", []*gen.Node{gen.N("BreakStatement")}, "Fallthrough", false)
		return gen.VCL(gen.Sub("f", gen.N("SwitchStatement", "Control", gen.N("SwitchControl", "Expression", e), "Cases", []*gen.Node{cs}, "Default", int64(-1))))
	}, false},
	{"synthetic", func(e *gen.Node) *gen.Node { return gen.VCL(gen.Sub("f", gen.N("SyntheticStatement", "Value", e))) }, false},
	{"return-paren", func(e *gen.Node) *gen.Node {
		return gen.VCL(gen.Sub("f", gen.N("ReturnStatement", "ReturnExpression", e, "HasParenthesis", true)))
	}, true},
}

func firstExprTok(e *gen.Node) string {
	t := gen.Tokens(gen.VCL(gen.Sub("f", gen.N("LogStatement", "Value", e))))
	// sub f { log <expr...>
	return t[4].Text
}

func opKey(n *gen.Node) string {
	if n == nil {
		return "-"
	}
	switch n.Kind {
	case "InfixExpression":
		op := n.Str("Operator")
		if op == "+" && !n.Bool("Explicit") {
			op = "juxt"
		}
		return op
	case "PrefixExpression":
		return "pre" + n.Str("Operator")
	}
	return "atom"
}

func layouts(root *gen.Node, emit func(layout, src string)) {
	toks := gen.Tokens(root)
	emit("space", gen.Render(toks, gen.Layout{}, nil))
	emit("newline", gen.Render(toks, gen.Layout{AllNL: true}, nil))
	var decos []gen.Deco
	for i, t := range toks {
		for _, s := range t.Pre {
			txt := "/* c */"
			switch s.Role {
			case "leading", "infix":
				txt = "# c"
			case "trailing":
				txt = "// c"
			}
			decos = append(decos, gen.Deco{Index: i, Text: txt, Role: s.Role})
		}
	}
	emit("comments", gen.Render(toks, gen.Layout{Newline: true}, decos))
}

func gen02(tier string, emit func(Case)) {
	thorough := tier == "thorough"
	atoms := gen.Atoms
	emitTree := func(e *gen.Node, key string) {
		for _, full := range []bool{false, true} {
			pe := gen.Parenthesize(e, full)
			for _, cx := range contexts {
				if cx.atoms && gen.Level(e.Str("Operator")) > 0 {
					continue
				}
				if cx.atoms && e.Kind != "Ident" {
					continue
				}
				if cx.name == "switch-control" {
					// the switch control is a variable, a function call or a literal, not an operator expression
					if !(e.Kind == "Ident" || e.Kind == "Boolean" || e.Kind == "FunctionCallExpression" || e.Kind == "String" && !e.Bool("LongString")) {
						continue
					}
				}
				root := cx.build(pe)
				if cx.name == "return-value" {
					// `return (` is the parenthesised form of the statement itself: an
					// expression that starts with "(" is ambiguous there and not generated
					if firstExprTok(pe) == "(" {
						continue
					}
				}
				want := root.String()
				par := "min"
				if full {
					par = "full"
				}
				layouts(root, func(lay, src string) {
					emit(Case{Src: src, Want: want, Kind: "expr", Layout: lay, Key: cx.name + "|" + key + "|" + par})
				})
			}
		}
	}
	// depth 0 and 1: all atoms, all operators, all atom pairs
	for _, a := range atoms() {
		emitTree(a, "atom")
		for _, p := range gen.PrefixOps {
			emitTree(gen.Prefix(p, a.Clone()), "pre"+p)
		}
	}
	d1 := func(visit func(*gen.Node)) {
		for _, op := range gen.BinOps {
			for _, a := range atoms() {
				for _, b := range atoms() {
					visit(mk(op, a, b))
				}
			}
		}
	}
	d1(func(e *gen.Node) { emitTree(e, opKey(e)) })
	// depth 2: every (outer, inner, side) with default atoms; every triple (outer, left, right)
	sub := func(op string, k int) *gen.Node {
		if op == "atom" {
			return gen.Ident(fmt.Sprintf("v%d", k))
		}
		if strings.HasPrefix(op, "pre") {
			return gen.Prefix(op[3:], gen.Ident(fmt.Sprintf("v%d", k)))
		}
		return mk(op, gen.Ident(fmt.Sprintf("v%d", k)), gen.Ident(fmt.Sprintf("w%d", k)))
	}
	inner := append(append([]string{"atom"}, gen.BinOps...), "pre!", "pre-")
	for _, outer := range gen.BinOps {
		for _, l := range inner {
			for _, r := range inner {
				if l == "atom" && r == "atom" {
					continue
				}
				e := mk(outer, sub(l, 1), sub(r, 2))
				emitTree(e, fmt.Sprintf("%s(%s,%s)", outer, l, r))
			}
		}
	}
	for _, p := range gen.PrefixOps {
		for _, in := range inner {
			if in == "atom" {
				continue
			}
			emitTree(gen.Prefix(p, sub(in, 1)), fmt.Sprintf("pre%s(%s)", p, in))
		}
	}
	{
		// depth 2 with one non-default atom at each leaf position
		for _, outer := range gen.BinOps {
			for _, in := range gen.BinOps {
				for side := 0; side < 2; side++ {
					for pos := 0; pos < 3; pos++ {
						for ai, a := range atoms() {
							if ai == 0 {
								continue
							}
							leaves := []*gen.Node{gen.Ident("v1"), gen.Ident("v2"), gen.Ident("v3")}
							leaves[pos] = a
							var e *gen.Node
							if side == 0 {
								e = mk(outer, mk(in, leaves[0], leaves[1]), leaves[2])
							} else {
								e = mk(outer, leaves[0], mk(in, leaves[1], leaves[2]))
							}
							emitTree(e, fmt.Sprintf("%s(%s@%d)", outer, in, side))
						}
					}
				}
			}
		}
	}
	if thorough {
		// depth 3: left and right spines over one operator per precedence level
		lv := []string{"||", "&&", "~", "==", "<", "+", "juxt"}
		for _, a := range lv {
			for _, b := range lv {
				for _, c := range lv {
					for shape := 0; shape < 4; shape++ {
						x, y, z, w := gen.Ident("p"), gen.Ident("q"), gen.Ident("r"), gen.Ident("s")
						var e *gen.Node
						switch shape {
						case 0:
							e = mk(a, mk(b, mk(c, x, y), z), w)
						case 1:
							e = mk(a, x, mk(b, y, mk(c, z, w)))
						case 2:
							e = mk(a, mk(b, x, mk(c, y, z)), w)
						case 3:
							e = mk(a, x, mk(b, mk(c, y, z), w))
						}
						emitTree(e, fmt.Sprintf("d3:%s,%s,%s/%d", a, b, c, shape))
					}
				}
			}
		}
	}
	// literal table in the set-value context
	for _, l := range gen.LiteralTable() {
		root := gen.VCL(gen.Sub("f", gen.Set("var.x", "=", l)))
		if l.Kind == "String" {
			// also as right operand of a concatenation and as call argument
			root = gen.VCL(gen.Sub("f", gen.Set("var.x", "=", l), gen.Set("var.y", "=", gen.Concat(gen.Str("p"), false, l.Clone())), gen.N("LogStatement", "Value", gen.Call("fn", l.Clone()))))
		}
		src := gen.Source(root)
		key := l.Kind
		if s, ok := l.H["src"]; ok {
			key += ":" + s
		} else if l.Kind == "PrefixExpression" {
			key += ":" + l.Child("Right").H["src"]
		} else {
			key += ":" + gen.Source(gen.VCL(gen.N("IncludeStatement", "Module", gen.Str("x"))))[:0] + l.Str("Value")
		}
		c := Case{Src: src, Want: root.String(), Kind: "lit", Layout: "default", Key: "literal|" + key}
		if l.H["mayreject"] == "1" {
			c.Kind = "lit-mayreject"
		}
		emit(c)
	}
	// statement / declaration derivations
	bound := 2
	if thorough {
		bound = 3
	}
	engine.Explore(bound, 0, func(c *engine.C) {
		root := gen.G{C: c}.Program(1)
		want := root.String()
		kind := "?"
		if st := root.List("Statements"); len(st) > 0 {
			kind = st[len(st)-1].Kind
			if len(st) == 1 && st[0].Kind == "SubroutineDeclaration" {
				if b := st[0].Child("Block").List("Statements"); len(b) > 0 {
					kind = b[0].Kind
					if len(b) == 3 {
						kind = b[1].Kind
					}
				}
			}
		}
		layouts(root, func(lay, src string) {
			emit(Case{Src: src, Want: want, Kind: "prog", Layout: lay, Key: "prog|" + kind})
		})
	})
}

func mk(op string, l, r *gen.Node) *gen.Node {
	switch op {
	case "+":
		return gen.Concat(l, true, r)
	case "juxt":
		return gen.Concat(l, false, r)
	}
	return gen.Infix(l, op, r)
}

// flatten rewrites right-nested chains of one associative operator (no
// parentheses in between) to the left-nested form: the property does not
// dictate their shape.
func flatten(n *gen.Node) *gen.Node {
	return n.Map(func(x *gen.Node) *gen.Node {
		if x.Kind != "InfixExpression" {
			return x
		}
		op := x.Str("Operator")
		if op != "&&" && op != "||" && op != "+" {
			return x
		}
		r := x.Child("Right")
		for r != nil && r.Kind == "InfixExpression" && r.Str("Operator") == op {
			// x = L op (RL op RR)  ->  (L op RL) op RR
			nl := gen.N("InfixExpression", "Left", x.Child("Left"), "Operator", op, "Explicit", x.Get("Explicit"), "Right", r.Child("Left"))
			x = gen.N("InfixExpression", "Left", nl, "Operator", op, "Explicit", r.Get("Explicit"), "Right", r.Child("Right"))
			x = flatten(x)
			r = x.Child("Right")
		}
		return x
	})
}

func run(c Case) engine.Result {
	res := engine.Result{NonTrivial: true, Outcome: "equal"}
	vcl, err := parser.New(lexer.NewFromString(c.Src)).ParseVCL()
	if err != nil {
		if c.Kind == "lit-mayreject" {
			return engine.Result{Skipped: true}
		}
		res.Outcome = "rejected"
		res.Findings = []engine.Finding{{
			Class: "rejected|" + dropPar(c.Key),
			What:  fmt.Sprintf("a program of the documented grammar is rejected (layout %s): %v\n%s", c.Layout, err, c.Src),
		}}
		return res
	}
	got := flatten(gen.DumpList(vcl.Statements, nil))
	want, perr := gen.ParseSexpr(c.Want)
	if perr != nil {
		panic(perr)
	}
	want = flatten(want)
	if d := gen.Diff(want, got); d != nil {
		res.Outcome = "different"
		res.Findings = []engine.Finding{{
			Class:  "tree|" + dropPar(c.Key) + "|" + lastSeg(d.Path),
			What:   fmt.Sprintf("parsed tree differs (layout %s) at %s: want %s, got %s", c.Layout, d.Path, d.Want, d.Got),
			Detail: map[string]string{"src": c.Src, "want": want.String(), "got": got.String()},
		}}
	}
	return res
}

func dropPar(k string) string {
	k = strings.TrimSuffix(k, "|min")
	return strings.TrimSuffix(k, "|full")
}

func lastSeg(p string) string {
	parts := strings.Split(p, ".")
	if len(parts) >= 2 {
		return parts[len(parts)-2] + "." + parts[len(parts)-1]
	}
	return p
}

func init() {
	engine.Register(engine.Spec[Case]{
		ID:    "C02",
		Level: "exploration",
		Rule: "complete enumeration of expression trees (all atoms x all operators at depth 1; every (outer, left, right) operator triple at depth 2; every atom at every leaf of every depth-2 shape; thorough adds depth-3 spines over one operator per precedence level), each printed by an independent printer with minimal and with full parentheses in 12 expression contexts under 3 layouts (single spaces, one token per line, a comment at every documented placeholder), plus a literal table and all statement/declaration derivations within 2 (quick) / 3 (thorough) deviations from each kind's default form; oracle: parse(print(t)) structurally equals t; non-trivial = every case (each has >=1 operator or statement); distinct = distinct source text",
		Gen:  gen02,
		Key:  func(c Case) string { return c.Src },
		Run:  run,
		Assumptions: []string{
			"the intended tree and its printed form come from docs/parser.md and the precedence table in the property, written independently of parser.go; only the AST field names are shared",
			"unparenthesised chains of one associative operator (&&, ||, concatenation) are compared flattened",
		},
	})
}
