// Package fmt3: one harness, three oracles — C03 (formatting preserves meaning),
// C14 (idempotent), C15 (keeps every comment).
package fmt3

import (
	"bytes"
	"fmt"
	"io"
	"os"
	"path/filepath"
	"reflect"
	"sort"
	"strings"

	"github.com/ysugimoto/falco/v2/ast"
	"github.com/ysugimoto/falco/v2/config"
	"github.com/ysugimoto/falco/v2/formatter"
	"github.com/ysugimoto/falco/v2/lexer"
	"github.com/ysugimoto/falco/v2/parser"
	"github.com/ysugimoto/falco/v2/token"

	"verif/mc/engine"
	"verif/mc/gen"
)

// Case is a source text with a formatter configuration.
type Case struct {
	Src  string              `json:"src"`
	Conf config.FormatConfig `json:"conf"`
	Devs []string            `json:"conf_deviations"` // option names that deviate from the documented defaults
	From string              `json:"from"`            // prog:<kind> | corpus:<file> | deco:<kind>/<slot>/<comment kind>
	// recipe of a decorated program: choice vector (or wide index) + decorations, so that
	// a failing multi-comment case can be reduced to the smallest failing subset
	Vec    []int      `json:"vec,omitempty"`
	Wide   int        `json:"wide,omitempty"` // index+1 into widePrograms
	Decos  []gen.Deco `json:"decos,omitempty"`
	Labels []string   `json:"deco_labels,omitempty"` // slot/commentkind per decoration
}

// rebuild regenerates the undecorated token list of a decorated case.
func rebuild(c Case) []gen.Tok {
	var root *gen.Node
	if c.Wide > 0 {
		root = widePrograms()[c.Wide-1]
	} else {
		engine.Replay(c.Vec, func(cc *engine.C) { root = gen.G{C: cc}.Program(1) })
	}
	return gen.Tokens(root)
}

// attribute reduces a failing decorated case to the smallest subset of its
// decorations for which pred still holds and returns (label, source).
func attribute(c Case, pred func(src string) bool) (string, string) {
	if len(c.Decos) == 0 {
		return classFrom(c), c.Src
	}
	toks := rebuild(c)
	// is a comment needed at all?
	if bare := gen.Render(toks, gen.Layout{Newline: true}, nil); pred(bare) {
		return progOf(c), bare
	}
	if len(c.Decos) == 1 {
		return c.Labels[0], c.Src
	}
	for i, d := range c.Decos {
		src := gen.Render(toks, gen.Layout{Newline: true}, []gen.Deco{d})
		if pred(src) {
			return c.Labels[i], src
		}
	}
	for i := range c.Decos {
		for j := i + 1; j < len(c.Decos); j++ {
			src := gen.Render(toks, gen.Layout{Newline: true}, []gen.Deco{c.Decos[i], c.Decos[j]})
			if pred(src) {
				return c.Labels[i] + "+" + c.Labels[j], src
			}
		}
	}
	return "multi:" + strings.Join(c.Labels, "+"), c.Src
}

// DefaultConf is the documented default configuration.
func DefaultConf() config.FormatConfig {
	return config.FormatConfig{
		IndentWidth: 2, TrailingCommentWidth: 1, IndentStyle: "space", LineWidth: 120,
		ExplicitStringConcat: true, ReturnStatementParenthesis: true, CommentStyle: "none", BreakCompoundConditions: true,
	}
}

type confDev struct {
	name  string
	apply func(*config.FormatConfig)
}

// single deviations from the defaults over the documented domains
var confDevs = []confDev{
	{"indent_width=1", func(c *config.FormatConfig) { c.IndentWidth = 1 }},
	{"indent_width=4", func(c *config.FormatConfig) { c.IndentWidth = 4 }},
	{"indent_width=8", func(c *config.FormatConfig) { c.IndentWidth = 8 }},
	{"indent_style=tab", func(c *config.FormatConfig) { c.IndentStyle = "tab" }},
	{"trailing_comment_width=2", func(c *config.FormatConfig) { c.TrailingCommentWidth = 2 }},
	{"line_width=-1", func(c *config.FormatConfig) { c.LineWidth = -1 }},
	{"line_width=1", func(c *config.FormatConfig) { c.LineWidth = 1 }},
	{"line_width=20", func(c *config.FormatConfig) { c.LineWidth = 20 }},
	{"line_width=40", func(c *config.FormatConfig) { c.LineWidth = 40 }},
	{"line_width=80", func(c *config.FormatConfig) { c.LineWidth = 80 }},
	{"explicit_string_concat=false", func(c *config.FormatConfig) { c.ExplicitStringConcat = false }},
	{"sort_declaration_property", func(c *config.FormatConfig) { c.SortDeclarationProperty = true }},
	{"align_declaration_property", func(c *config.FormatConfig) { c.AlignDeclarationProperty = true }},
	{"else_if", func(c *config.FormatConfig) { c.ElseIf = true }},
	{"always_next_line_else_if", func(c *config.FormatConfig) { c.AlwaysNextLineElseIf = true }},
	{"return_statement_parenthesis=false", func(c *config.FormatConfig) { c.ReturnStatementParenthesis = false }},
	{"sort_declaration", func(c *config.FormatConfig) { c.SortDeclaration = true }},
	{"align_trailing_comment", func(c *config.FormatConfig) { c.AlignTrailingComment = true }},
	{"comment_style=sharp", func(c *config.FormatConfig) { c.CommentStyle = "sharp" }},
	{"comment_style=slash", func(c *config.FormatConfig) { c.CommentStyle = "slash" }},
	{"should_use_unset", func(c *config.FormatConfig) { c.ShouldUseUnset = true }},
	{"indent_case_labels", func(c *config.FormatConfig) { c.IndentCaseLabels = true }},
	{"break_compound_conditions=false", func(c *config.FormatConfig) { c.BreakCompoundConditions = false }},
}

func sameOption(a, b string) bool {
	return strings.SplitN(a, "=", 2)[0] == strings.SplitN(b, "=", 2)[0]
}

// confs enumerates all configurations with at most d deviations.
func confs(d int, visit func(config.FormatConfig, []string)) {
	visit(DefaultConf(), nil)
	if d >= 1 {
		for _, a := range confDevs {
			c := DefaultConf()
			a.apply(&c)
			visit(c, []string{a.name})
		}
	}
	if d >= 2 {
		for i, a := range confDevs {
			for _, b := range confDevs[i+1:] {
				if sameOption(a.name, b.name) {
					continue
				}
				c := DefaultConf()
				a.apply(&c)
				b.apply(&c)
				visit(c, []string{a.name, b.name})
			}
		}
	}
	if d >= 3 {
		for i, a := range confDevs {
			for j, b := range confDevs[i+1:] {
				for _, e := range confDevs[i+1+j+1:] {
					if sameOption(a.name, b.name) || sameOption(a.name, e.name) || sameOption(b.name, e.name) {
						continue
					}
					c := DefaultConf()
					a.apply(&c)
					b.apply(&c)
					e.apply(&c)
					visit(c, []string{a.name, b.name, e.name})
				}
			}
		}
	}
}

func corpus() []struct{ name, src string } {
	var out []struct{ name, src string }
	filepath.Walk("/repo/examples", func(p string, info os.FileInfo, err error) error {
		if err == nil && !info.IsDir() && strings.HasSuffix(p, ".vcl") {
			if b, err := os.ReadFile(p); err == nil {
				rel, _ := filepath.Rel("/repo/examples", p)
				out = append(out, struct{ name, src string }{rel, string(b)})
			}
		}
		return nil
	})
	sort.Slice(out, func(i, j int) bool { return out[i].name < out[j].name })
	return out
}

// wide programs force line wrapping
func widePrograms() []*gen.Node {
	long := gen.Str("aaaaaaaaaaaaaaaaaaaaaaaaaaaaaaaaaaaaaaaa")
	var cat *gen.Node = gen.Str("start")
	for i := 0; i < 8; i++ {
		switch i % 3 {
		case 0:
			cat = gen.Concat(cat, false, long.Clone())
		case 1:
			cat = gen.Concat(cat, true, gen.Ident("req.http.Some-Long-Header-Name"))
		case 2:
			cat = gen.Concat(cat, false, gen.Call("std.tolower", gen.Ident("req.http.Other")))
		}
	}
	var cond *gen.Node = gen.Infix(gen.Ident("req.http.Aaaaaaaaaaaa"), "==", gen.Str("xxxxxxxxxxxxxxxxxxxx"))
	for i := 0; i < 6; i++ {
		op := "&&"
		if i%2 == 1 {
			op = "||"
		}
		rhs := gen.Infix(gen.Ident(fmt.Sprintf("req.http.Header%d", i)), "~", gen.Str("^/some/long/path/prefix"))
		if op == "||" {
			cond = gen.Infix(gen.Group(cond), op, rhs)
		} else {
			cond = gen.Infix(cond, op, rhs)
		}
	}
	// else-if branches (each keyword spelling) whose condition is a concatenation that ends within a few columns of the
	// line width: a sweep of the last operand's length moves the end of the line through every column from 100 to 135
	var sweeps []*gen.Node
	for _, kw := range []string{"else if", "elsif", "elseif"} {
		for l := 0; l <= 35; l++ {
			c2 := gen.Infix(gen.Ident("req.http.Host"), "~", gen.Concat(gen.Concat(gen.Str("^region-aaaaaaaaaaaaaaaaaaaaaaaaaaaaaaaaaaa-"), true, gen.Ident("req.http.X-Region-Suffix")), true, gen.Str(strings.Repeat("z", l)+"$")))
			ifs := gen.If(gen.Ident("req.http.A"), gen.N("EsiStatement"))
			ifs.Set("Another", []*gen.Node{gen.ElseIf(kw, c2, gen.N("EsiStatement"))})
			sweeps = append(sweeps, gen.VCL(gen.Sub("vcl_recv", ifs)))
		}
	}
	// a multi-line long string as an operand of a condition / value that is broken over several lines
	ml := gen.LongStr("line1\nline2\n   line3 indented\n\tline4 tab", "")
	mlCond := gen.Infix(gen.Infix(gen.Infix(gen.Ident("req.http.Aaaaaaaaaaaaaaaaaaaaaaaaaaaaaaaaaaaaaaaaaaaa"), "==", gen.Str("xxxxxxxxxxxxxxxxxxxxxxxxxxxxxxxxxxxxxxxx")), "&&", gen.Infix(gen.Ident("req.http.B"), "==", ml)), "&&", gen.Infix(gen.Ident("req.http.Cccccccccccccccccccccccccccccccccccccc"), "~", gen.Str("^/some/long/path/prefix/that/forces/wrapping")))
	mlCat := gen.Concat(gen.Concat(gen.Str("aaaaaaaaaaaaaaaaaaaaaaaaaaaaaaaaaaaaaaaaaaaaaaaaaaaaaaaaaaaa"), true, ml.Clone()), true, gen.Str("bbbbbbbbbbbbbbbbbbbbbbbbbbbbbbbbbbbbbbbbbbbbbbbbbbbbbbbbbbbbbbbbbbbbbbbbbb"))
	// two long strings on one line of the condition: one closed on the line, the next one continuing below it (and the reverse)
	ml2 := gen.LongStr("second\n      literal\n  end", "")
	twoA := gen.Infix(gen.Infix(gen.Infix(gen.Ident("req.http.Aaaaaaaaaaaaaaaaaaaaaaaaaaaaaaaaaaaaaaaaaaaa"), "==", gen.Str("xxxxxxxxxxxxxxxxxxxxxxxxxxxxxxxxxxxxxxxx")), "&&", gen.Infix(gen.Ident("req.http.B"), "==", gen.Concat(gen.LongStr("<pre>", ""), false, ml.Clone()))), "&&", gen.Infix(gen.Ident("req.http.Cccccccccccccccccccccccccccccccccccccc"), "~", gen.Str("^/some/long/path/prefix/that/forces/wrapping")))
	twoB := gen.Infix(gen.Infix(gen.Infix(gen.Ident("req.http.Aaaaaaaaaaaaaaaaaaaaaaaaaaaaaaaaaaaaaaaaaaaa"), "==", gen.Str("xxxxxxxxxxxxxxxxxxxxxxxxxxxxxxxxxxxxxxxx")), "&&", gen.Infix(gen.Ident("req.http.B"), "==", gen.Concat(gen.Concat(ml.Clone(), false, ml2), false, gen.LongStr("</pre>", "")))), "&&", gen.Infix(gen.Ident("req.http.Cccccccccccccccccccccccccccccccccccccc"), "~", gen.Str("^/some/long/path/prefix/that/forces/wrapping")))
	sweeps = append(sweeps,
		gen.VCL(gen.Sub("vcl_recv", gen.If(twoA, gen.N("EsiStatement")))),
		gen.VCL(gen.Sub("vcl_recv", gen.If(twoB, gen.N("EsiStatement")))),
	)
	ifs2 := gen.If(gen.Ident("req.http.A"), gen.N("EsiStatement"))
	ifs2.Set("Another", []*gen.Node{gen.ElseIf("else if", mlCond.Clone(), gen.N("EsiStatement"))})
	sweeps = append(sweeps,
		gen.VCL(gen.Sub("vcl_recv", gen.If(mlCond, gen.N("EsiStatement")))),
		gen.VCL(gen.Sub("vcl_recv", ifs2)),
		gen.VCL(gen.Sub("vcl_recv", gen.Set("req.http.A", "=", mlCat), gen.N("LogStatement", "Value", mlCat.Clone()), gen.N("SyntheticStatement", "Value", mlCat.Clone()))),
	)
	return append([]*gen.Node{
		gen.VCL(gen.Sub("vcl_recv", gen.Set("req.http.A", "=", cat), gen.N("LogStatement", "Value", cat.Clone()))),
		gen.VCL(gen.Sub("vcl_recv", gen.If(cond, gen.N("EsiStatement")))),
		gen.VCL(gen.Sub("vcl_recv", gen.Set("req.http.A", "=", gen.Call("regsuball", gen.Ident("req.http.Some-Long-Header-Name"), gen.Str("^(aaaaaaaaaaaaaaaaaaaa|bbbbbbbbbbbbbbbbbbbbbbbb)"), gen.Concat(gen.Str("cccccccccccccccccccccccc"), false, gen.Ident("req.http.Yet-Another-Header")))))),
		gen.VCL(gen.Sub("vcl_recv", gen.N("ErrorStatement", "Code", gen.Int(600), "Argument", cat.Clone()), gen.N("SyntheticStatement", "Value", cat.Clone()))),
	}, sweeps...)
}

// specials are comments with a meaning of their own, at leading slots
var specials = []string{"#FASTLY recv", "# falco-ignore-next-line", "// falco-ignore-start", "// falco-ignore-end", "# @scope: recv,deliver", "/* falco-ignore */"}

var commentKinds = []struct{ name, line, block string }{
	// the line comments carry text that would open a block comment or a long string if it were code
	{"sharp", "# c%d. /* {\"x", ""}, {"slash", "// c%d. {ID\"y", ""}, {"block", "/* c%d. */", "/* c%d. */"},
}

func commentText(kind int, id int) string { return fmt.Sprintf(commentKinds[kind].line, id) }

func programs(bound int, visit func(root *gen.Node, kind string)) {
	programsV(bound, func(root *gen.Node, kind string, vec []int, wide int) { visit(root, kind) })
}

func programsV(bound int, visit func(root *gen.Node, kind string, vec []int, wide int)) {
	engine.Explore(bound, 0, func(c *engine.C) {
		root := gen.G{C: c}.Program(1)
		visit(root, progKind(root), c.Vector(), 0)
	})
	for i, w := range widePrograms() {
		visit(w, "wide", nil, i+1)
	}
}

func progKind(root *gen.Node) string {
	st := root.List("Statements")
	if len(st) == 0 {
		return "empty"
	}
	kind := st[len(st)-1].Kind
	if st[0].Kind == "SubroutineDeclaration" && len(st) == 1 {
		if b := st[0].Child("Block").List("Statements"); len(b) > 0 {
			kind = b[0].Kind
			if len(b) == 3 {
				kind = b[1].Kind
			}
		}
	}
	return kind
}

// Gen enumerates programs x configurations.
func Gen(tier string, emit func(Case)) {
	thorough := tier == "thorough"
	pb, cb := 2, 2
	if thorough {
		pb = 3
	}
	// (1) generated programs x configurations
	programs(pb, func(root *gen.Node, kind string) {
		src := gen.Source(root)
		confs(1, func(cf config.FormatConfig, devs []string) {
			emit(Case{Src: src, Conf: cf, Devs: devs, From: "prog:" + kind})
		})
	})
	programs(1, func(root *gen.Node, kind string) {
		src := gen.Source(root)
		d := cb
		if thorough {
			d = 3
		}
		confs(d, func(cf config.FormatConfig, devs []string) {
			if len(devs) < 2 {
				return
			}
			emit(Case{Src: src, Conf: cf, Devs: devs, From: "prog:" + kind})
		})
	})
	// all options flipped
	all := DefaultConf()
	var allNames []string
	for _, d := range confDevs {
		if strings.HasPrefix(d.name, "indent_width=") && d.name != "indent_width=4" || strings.HasPrefix(d.name, "line_width=") && d.name != "line_width=40" || d.name == "comment_style=slash" {
			continue
		}
		d.apply(&all)
		allNames = append(allNames, d.name)
	}
	programs(1, func(root *gen.Node, kind string) {
		emit(Case{Src: gen.Source(root), Conf: all, Devs: allNames, From: "prog:" + kind})
	})
	// (2) comment decorations at documented placeholders
	decoConfs := []int{-1}
	for i, d := range confDevs {
		switch d.name {
		case "comment_style=sharp", "comment_style=slash", "align_trailing_comment", "line_width=1", "trailing_comment_width=2", "always_next_line_else_if", "sort_declaration_property", "indent_case_labels", "return_statement_parenthesis=false":
			decoConfs = append(decoConfs, i)
		}
	}
	// the remaining options that rewrite or move text: crossed with one comment at a time and with every placeholder filled at once
	var decoConfsSingle []int
	for i, d := range confDevs {
		switch d.name {
		case "should_use_unset", "else_if", "explicit_string_concat=false", "align_declaration_property", "sort_declaration", "break_compound_conditions=false", "indent_style=tab", "line_width=40":
			decoConfsSingle = append(decoConfsSingle, i)
		}
	}
	programsV(1, func(root *gen.Node, kind string, vec []int, wide int) {
		toks := gen.Tokens(root)
		type sl struct {
			idx  int
			slot gen.Slot
		}
		var slots []sl
		for i, t := range toks {
			for _, s := range t.Pre {
				slots = append(slots, sl{i, s})
			}
		}
		emitDeco := func(decos []gen.Deco, label string, rawSlot ...string) {
			src := gen.Render(toks, gen.Layout{Newline: true}, decos)
			labels := make([]string, len(decos))
			for i, d := range decos {
				ck := "block"
				switch {
				case d.Role == "raw":
					ck = "blank"
				case strings.HasPrefix(d.Text, "#FASTLY"), strings.Contains(d.Text, "falco-"), strings.Contains(d.Text, "@scope"):
					ck = "special"
				case strings.HasPrefix(d.Text, "#"):
					ck = "sharp"
				case strings.HasPrefix(d.Text, "//"):
					ck = "slash"
				}
				for _, sl0 := range toks[d.Index].Pre {
					if sl0.Role == d.Role || (d.Role == "raw" && sl0.Role == "leading") {
						labels[i] = sl0.Name + "/" + ck
					}
				}
				if d.Role == "raw" && len(rawSlot) > 0 {
					labels[i] = rawSlot[0] + "/" + ck
				}
			}
			cfs := decoConfs
			if len(decos) == 1 || strings.HasPrefix(label, "all-slots") {
				cfs = append(append([]int{}, decoConfs...), decoConfsSingle...)
			}
			for _, ci := range cfs {
				cf := DefaultConf()
				var devs []string
				if ci >= 0 {
					confDevs[ci].apply(&cf)
					devs = []string{confDevs[ci].name}
				}
				emit(Case{Src: src, Conf: cf, Devs: devs, From: "deco:" + label, Vec: vec, Wide: wide, Decos: decos, Labels: labels})
			}
		}
		for _, s := range slots {
			for k := range commentKinds {
				emitDeco([]gen.Deco{{Index: s.idx, Text: commentText(k, 1), Role: s.slot.Role}}, s.slot.Name+"/"+commentKinds[k].name)
			}
			// an empty line before and/or after a comment at the same placeholder
			for _, k := range []int{0, 2} {
				cm := gen.Deco{Index: s.idx, Text: commentText(k, 1), Role: s.slot.Role}
				bl := gen.Deco{Index: s.idx, Text: "\n\n", Role: "raw"}
				emitDeco([]gen.Deco{bl, cm}, s.slot.Name+"/blank+"+commentKinds[k].name, s.slot.Name)
				emitDeco([]gen.Deco{cm, bl}, s.slot.Name+"/"+commentKinds[k].name+"+blank", s.slot.Name)
				emitDeco([]gen.Deco{bl, cm, bl}, s.slot.Name+"/blank+"+commentKinds[k].name+"+blank", s.slot.Name)
			}
			if s.slot.Role == "leading" {
				// an empty line in front of the statement / declaration / case clause
				emitDeco([]gen.Deco{{Index: s.idx, Text: "\n\n", Role: "raw"}}, s.slot.Name+"/blank")
				for _, sp := range specials {
					emitDeco([]gen.Deco{{Index: s.idx, Text: sp, Role: "leading"}}, s.slot.Name+"/special")
				}
			}
		}
		// pairs of slots
		maxPairs := 2
		if thorough {
			maxPairs = 3
		}
		_ = maxPairs
		for i := 0; i < len(slots); i++ {
			for j := i + 1; j < len(slots); j++ {
				for _, kk := range [][2]int{{2, 2}, {0, 1}, {2, 0}} {
					emitDeco([]gen.Deco{
						{Index: slots[i].idx, Text: commentText(kk[0], 1), Role: slots[i].slot.Role},
						{Index: slots[j].idx, Text: commentText(kk[1], 2), Role: slots[j].slot.Role},
					}, slots[i].slot.Name+"+"+slots[j].slot.Name+"/"+commentKinds[kk[0]].name+"+"+commentKinds[kk[1]].name)
				}
				if slots[j].slot.Role == "leading" {
					// a comment, then (at a later own-line placeholder) a comment separated from its statement by an empty line
					emitDeco([]gen.Deco{
						{Index: slots[i].idx, Text: commentText(0, 1), Role: slots[i].slot.Role},
						{Index: slots[j].idx, Text: commentText(0, 2), Role: slots[j].slot.Role},
						{Index: slots[j].idx, Text: "\n\n", Role: "raw"},
					}, slots[i].slot.Name+"+"+slots[j].slot.Name+"/sharp+sharp+blank", slots[j].slot.Name)
				}
				if thorough {
					for k := j + 1; k < len(slots); k++ {
						emitDeco([]gen.Deco{
							{Index: slots[i].idx, Text: commentText(2, 1), Role: slots[i].slot.Role},
							{Index: slots[j].idx, Text: commentText(0, 2), Role: slots[j].slot.Role},
							{Index: slots[k].idx, Text: commentText(1, 3), Role: slots[k].slot.Role},
						}, slots[i].slot.Name+"+"+slots[j].slot.Name+"+"+slots[k].slot.Name+"/3")
					}
				}
			}
		}
		// every slot filled at once
		var allDecos []gen.Deco
		for n, s := range slots {
			allDecos = append(allDecos, gen.Deco{Index: s.idx, Text: commentText(n%3, n+1), Role: s.slot.Role})
		}
		emitDeco(allDecos, "all-slots:"+kind)
		// the same with an empty line before and after every comment that sits on a line of its own
		var allBlank []gen.Deco
		for n, s := range slots {
			if s.slot.Role == "leading" {
				cm := gen.Deco{Index: s.idx, Text: commentText(n%3, n+1), Role: s.slot.Role}
				bl := gen.Deco{Index: s.idx, Text: "\n\n", Role: "raw"}
				allBlank = append(allBlank, bl, cm, bl)
			} else if s.slot.Role == "trailing" {
				allBlank = append(allBlank, gen.Deco{Index: s.idx, Text: commentText(n%3, n+1), Role: s.slot.Role})
			} else {
				// block comments at the inline placeholders: a line comment there is root cause B and ends the comparison early
				allBlank = append(allBlank, gen.Deco{Index: s.idx, Text: commentText(2, n+1), Role: s.slot.Role})
			}
		}
		emitDeco(allBlank, "all-slots-blank:"+kind)
	})
	// (3) example files
	for _, f := range corpus() {
		d := 2
		confs(d, func(cf config.FormatConfig, devs []string) {
			emit(Case{Src: f.src, Conf: cf, Devs: devs, From: "corpus:" + f.name})
		})
		emit(Case{Src: f.src, Conf: all, Devs: allNames, From: "corpus:" + f.name})
	}
}

// Key for sharding / distinct counting.
func Key(c Case) string { return c.Src + "\x00" + strings.Join(c.Devs, ",") }

// Parse parses a declaration file.
func Parse(src string) (*ast.VCL, error) {
	return parser.New(lexer.NewFromString(src)).ParseVCL()
}

// Format runs the real formatter; ok=false when it returns a nil reader.
func Format(vcl *ast.VCL, cf config.FormatConfig) (string, bool) {
	c := cf
	r := formatter.New(&c).Format(vcl)
	if r == nil || reflect.ValueOf(r).Kind() == reflect.Ptr && reflect.ValueOf(r).IsNil() {
		return "", false
	}
	b, _ := io.ReadAll(r)
	return string(b), true
}

// Comments lexes src and returns its comment tokens in order.
func Comments(src string) []string {
	var out []string
	lx := lexer.NewFromString(src)
	for {
		t := lx.NextToken()
		if t.Type == token.EOF {
			break
		}
		if t.Type == token.COMMENT {
			out = append(out, t.Literal)
		}
	}
	return out
}

var _ = bytes.NewReader

func devKey(devs []string) string {
	if len(devs) == 0 {
		return "default"
	}
	if len(devs) > 3 {
		return "all-options"
	}
	return strings.Join(devs, "+")
}
