package fmt3

import (
	"fmt"
	"runtime/debug"
	"sort"
	"strings"

	"github.com/ysugimoto/falco/v2/config"

	"verif/mc/engine"
	"verif/mc/gen"
)

// ---------------------------------------------------------------------------
// shared pipeline

type pipe struct {
	parsed   bool
	want     *gen.Node
	out      string
	panicked string // panic site, "" if none
	panicMsg string
	nilOut   bool
}

func runPipe(src string, cf config.FormatConfig) (p pipe) {
	vcl, err := Parse(src)
	if err != nil {
		return p
	}
	p.parsed = true
	p.want = gen.DumpList(vcl.Statements, nil)
	func() {
		defer func() {
			if r := recover(); r != nil {
				p.panicked = engine.PanicSite(string(debug.Stack()))
				p.panicMsg = fmt.Sprint(r)
			}
		}()
		out, ok := Format(vcl, cf)
		p.out, p.nilOut = out, !ok
	}()
	return p
}

// normalise applies exactly the documented rewrites of the options that are on.
func normalise(n *gen.Node, cf config.FormatConfig) *gen.Node {
	n = n.Map(func(x *gen.Node) *gen.Node {
		var keep []gen.Field
		for _, f := range x.F {
			switch {
			case f.Name == "Explicit", f.Name == "HasComma":
				continue
			case f.Name == "HasParenthesis":
				// return_statement_parenthesis rewrites in both directions (adds when on, strips when off)
				continue
			}
			keep = append(keep, f)
		}
		x.F = keep
		if cf.ElseIf && x.Kind == "IfStatement" && x.Str("Keyword") != "if" {
			x.Set("Keyword", "else if")
		}
		if cf.ShouldUseUnset && x.Kind == "RemoveStatement" {
			x.Kind = "UnsetStatement"
		}
		if cf.SortDeclarationProperty {
			switch x.Kind {
			case "BackendDeclaration", "TableDeclaration", "DirectorDeclaration":
				sortNodes(x.List("Properties"))
			case "BackendProbeObject", "DirectorBackendObject":
				sortNodes(x.List("Values"))
			}
		}
		return x
	})
	if cf.SortDeclaration && n.Kind == "VCL" {
		sortNodes(n.List("Statements"))
	}
	return n
}

func sortNodes(l []*gen.Node) {
	sort.SliceStable(l, func(i, j int) bool { return l[i].String() < l[j].String() })
}

// minimalDevs finds the smallest subset of the case's deviations under which
// pred still holds (default first, then singles, then the full set).
func minimalDevs(c Case, pred func(cf config.FormatConfig) bool) string {
	if len(c.Devs) == 0 {
		return "default"
	}
	if pred(DefaultConf()) {
		return "default"
	}
	if len(c.Devs) > 1 {
		for _, d := range c.Devs {
			cf := DefaultConf()
			for _, cd := range confDevs {
				if cd.name == d {
					cd.apply(&cf)
				}
			}
			if pred(cf) {
				return d
			}
		}
	}
	return devKey(c.Devs)
}

func fromKind(c Case) string {
	f := c.From
	if i := strings.IndexByte(f, ':'); i >= 0 {
		return f[i+1:]
	}
	return f
}

// ---------------------------------------------------------------------------
// C03

type c03res struct {
	class string
	what  string
}

func c03once(src string, cf config.FormatConfig) *c03res {
	p := runPipe(src, cf)
	if !p.parsed {
		return nil
	}
	if p.panicked != "" {
		return &c03res{"panic@" + p.panicked, "formatter panics: " + p.panicMsg}
	}
	if p.nilOut {
		return &c03res{"nil-output", "formatter returns no output for a parseable declaration file"}
	}
	vcl2, err := Parse(p.out)
	if err != nil {
		if w, g := swallowed(src, p.out, cf); w != "" {
			return &c03res{"swallowed", fmt.Sprintf("line comment %q at an inline placeholder is printed without its line break and comments out code (%q); the result does not parse: %v", w, g, err)}
		}
		return &c03res{"unparseable|" + errShape(err.Error()), fmt.Sprintf("formatted text does not parse: %v", err)}
	}
	want := normalise(p.want, cf)
	got := normalise(gen.DumpList(vcl2.Statements, nil), cf)
	if d := gen.Diff(want, got); d != nil {
		if w, g := swallowed(src, p.out, cf); w != "" {
			return &c03res{"swallowed", fmt.Sprintf("line comment %q at an inline placeholder is printed without its line break and comments out code (%q); tree differs at %s", w, g, d.Path)}
		}
		return &c03res{"tree|" + tail(d.Path, 3), fmt.Sprintf("tree differs at %s: original %s, formatted %s", d.Path, d.Want, d.Got)}
	}
	return nil
}

// swallowed recognises one specific root cause: a line comment of the input
// shows up in the output with code appended to it on the same line.
func swallowed(src, out string, cf config.FormatConfig) (string, string) {
	var in []string
	for _, c := range Comments(src) {
		if !strings.HasPrefix(c, "/*") {
			in = append(in, strings.TrimRight(strings.TrimLeft(c, "#/"), " \t\r"))
		}
	}
	for _, g := range Comments(out) {
		if strings.HasPrefix(g, "/*") {
			continue
		}
		gt := strings.TrimRight(strings.TrimLeft(g, "#/"), " \t\r")
		for _, w := range in {
			if gt != w && w != "" && strings.HasPrefix(gt, w) {
				return w, g
			}
		}
	}
	return "", ""
}

func nodeOfLabel(label string, c Case) string {
	first := strings.SplitN(label, "+", 2)[0]
	parts := strings.Split(first, "/")
	if parts[0] == "FunctionCallExpression" && len(parts) > 1 {
		// the placeholders of a call inside an expression are told apart, and so are the statements the call sits in:
		// the known findings are the placeholder in front of an argument and the control expression of a switch
		return parts[0] + "/" + parts[1] + "@" + progOf(c)
	}
	return parts[0]
}

func errShape(s string) string {
	s = strings.TrimPrefix(s, "Parse Error: ")
	for i, r := range s {
		if r == '"' || r == ',' || r >= '0' && r <= '9' {
			return strings.TrimSpace(s[:i])
		}
	}
	return s
}

func tail(path string, n int) string {
	parts := strings.Split(path, ".")
	if len(parts) > n {
		parts = parts[len(parts)-n:]
	}
	return strings.Join(parts, ".")
}

func runC03(c Case) engine.Result {
	r := c03once(c.Src, c.Conf)
	if r == nil {
		if _, err := Parse(c.Src); err != nil {
			return engine.Result{Skipped: true}
		}
		return engine.Result{NonTrivial: true, Outcome: "preserved"}
	}
	label, msrc := attribute(c, func(src string) bool {
		x := c03once(src, c.Conf)
		return x != nil && x.class == r.class
	})
	devs := minimalDevs(c, func(cf config.FormatConfig) bool {
		x := c03once(msrc, cf)
		return x != nil && x.class == r.class
	})
	p := runPipe(msrc, c.Conf)
	if r.class == "swallowed" {
		label = nodeOfLabel(label, c)
	}
	return engine.Result{NonTrivial: true, Outcome: strings.SplitN(r.class, "|", 2)[0], Findings: []engine.Finding{{
		Class:  r.class + "|" + label + "|" + devs,
		What:   fmt.Sprintf("%s [%s; config %s]", r.what, c.From, devKey(c.Devs)),
		Detail: map[string]string{"src": msrc, "formatted": p.out},
	}}}
}

func progOf(c Case) string {
	var root *gen.Node
	if c.Wide > 0 {
		return "wide"
	}
	engine.Replay(c.Vec, func(cc *engine.C) { root = gen.G{C: cc}.Program(1) })
	return progKind(root)
}

// classFrom: generated programs are identified by node kind; corpus files by name.
func classFrom(c Case) string {
	switch {
	case strings.HasPrefix(c.From, "prog:"):
		return strings.TrimPrefix(c.From, "prog:")
	case strings.HasPrefix(c.From, "deco:"):
		s := strings.TrimPrefix(c.From, "deco:")
		// slot(s) only, comment kind kept
		return s
	}
	return c.From
}

// ---------------------------------------------------------------------------
// C14

func c14once(src string, cf config.FormatConfig) (bool, string, string) {
	p := runPipe(src, cf)
	if !p.parsed || p.panicked != "" || p.nilOut {
		return false, "", ""
	}
	p2 := runPipe(p.out, cf)
	if !p2.parsed || p2.panicked != "" || p2.nilOut {
		return false, "", "" // C03's business
	}
	if p2.out == p.out {
		return false, p.out, p2.out
	}
	return true, p.out, p2.out
}

func firstDiffLine(a, b string) (string, string) {
	la, lb := strings.Split(a, "\n"), strings.Split(b, "\n")
	for i := 0; i < len(la) || i < len(lb); i++ {
		x, y := "<eof>", "<eof>"
		if i < len(la) {
			x = la[i]
		}
		if i < len(lb) {
			y = lb[i]
		}
		if x != y {
			return x, y
		}
	}
	return "", ""
}

func lineShape(l string) string {
	t := strings.TrimSpace(l)
	if t == "" {
		return "<blank>"
	}
	f := strings.Fields(t)[0]
	switch {
	case strings.HasPrefix(f, "#"), strings.HasPrefix(f, "//"), strings.HasPrefix(f, "/*"):
		return "<comment>"
	case strings.HasPrefix(f, "\""), strings.HasPrefix(f, "{\""):
		return "<string>"
	case strings.HasPrefix(f, "."):
		return "<property>"
	}
	if len(f) > 14 {
		f = f[:14]
	}
	return f
}

func runC14(c Case) engine.Result {
	bad, o1, o2 := c14once(c.Src, c.Conf)
	if !bad {
		if o1 == "" {
			return engine.Result{Skipped: true}
		}
		return engine.Result{NonTrivial: true, Outcome: "idempotent"}
	}
	l1, l2 := firstDiffLine(o1, o2)
	shape := lineShape(l1) + ">" + lineShape(l2)
	if w, g := swallowed(c.Src, o1, c.Conf); w != "" {
		// root cause shared with C03/C15: the first pass already commented code out
		label, msrc := attribute(c, func(src string) bool {
			b, x1, _ := c14once(src, c.Conf)
			if !b {
				return false
			}
			w2, _ := swallowed(src, x1, c.Conf)
			return w2 != ""
		})
		return engine.Result{NonTrivial: true, Outcome: "changed", Findings: []engine.Finding{{
			Class:  "swallowed|" + nodeOfLabel(label, c) + "|default",
			What:   fmt.Sprintf("the first pass prints line comment %q without its line break (%q), so the second pass sees a different program [%s]", w, g, c.From),
			Detail: map[string]string{"src": msrc, "pass1": o1, "pass2": o2},
		}}}
	}
	same := func(src string, cf config.FormatConfig) bool {
		b, x1, x2 := c14once(src, cf)
		if !b {
			return false
		}
		y1, y2 := firstDiffLine(x1, x2)
		return lineShape(y1)+">"+lineShape(y2) == shape
	}
	label, msrc := attribute(c, func(src string) bool { return same(src, c.Conf) })
	devs := minimalDevs(c, func(cf config.FormatConfig) bool { return same(msrc, cf) })
	return engine.Result{NonTrivial: true, Outcome: "changed", Findings: []engine.Finding{{
		Class:  "nonidempotent|" + shape + "|" + label + "|" + devs,
		What:   fmt.Sprintf("second formatting pass changes the text: %q becomes %q [%s; config %s]", l1, l2, c.From, devKey(c.Devs)),
		Detail: map[string]string{"src": msrc, "pass1": o1, "pass2": o2},
	}}}
}

// ---------------------------------------------------------------------------
// C15

// mapStyle reduces a line comment to its text when a marker style is configured:
// the marker run (#, ##, //, ///#...) is what the option may rewrite.
func mapStyle(cm string, style string) string {
	if style != "sharp" && style != "slash" {
		return cm
	}
	if strings.HasPrefix(cm, "/*") {
		return cm
	}
	return "<line>" + strings.TrimLeft(cm, "#/")
}

func normComment(cm string) string {
	// trailing whitespace of a line comment is layout
	return strings.TrimRight(cm, " \t\r")
}

func c15once(src string, cf config.FormatConfig) (problem string, detail string, out string, evaluated bool) {
	p := runPipe(src, cf)
	if !p.parsed || p.panicked != "" || p.nilOut {
		return "", "", "", false
	}
	in := Comments(src)
	got := Comments(p.out)
	var want []string
	for _, cmt := range in {
		want = append(want, normComment(mapStyle(cmt, cf.CommentStyle)))
	}
	for i := range got {
		g := got[i]
		got[i] = normComment(mapStyle(g, cf.CommentStyle))
	}
	if len(want) == 0 {
		if len(got) == 0 {
			return "", "", p.out, true
		}
		return "invented", fmt.Sprintf("output has comment %q that the input does not have", got[0]), p.out, true
	}
	if strings.Join(want, "\x00") == strings.Join(got, "\x00") {
		return "", "", p.out, true
	}
	cw, cg := map[string]int{}, map[string]int{}
	for _, w := range want {
		cw[w]++
	}
	for _, g := range got {
		cg[g]++
	}
	for _, w := range want {
		if cg[w] < cw[w] {
			// lost or changed?
			for _, g := range got {
				if cw[g] < cg[g] {
					return "changed", fmt.Sprintf("comment %q appears as %q", w, g), p.out, true
				}
			}
			return "lost", fmt.Sprintf("comment %q is missing from the output", w), p.out, true
		}
	}
	for _, g := range got {
		if cg[g] > cw[g] {
			return "duplicated", fmt.Sprintf("comment %q appears %d times in the output, %d in the input", g, cg[g], cw[g]), p.out, true
		}
	}
	if cf.SortDeclaration || cf.SortDeclarationProperty {
		// a sort option moves declarations / properties together with the comments attached to them
		return "", "", p.out, true
	}
	return "reordered", fmt.Sprintf("comments change their relative order: %q -> %q", want, got), p.out, true
}

func runC15(c Case) engine.Result {
	for _, l := range c.Labels {
		if strings.HasPrefix(l, "FunctionCallExpression/") {
			// arguments of a call inside an expression are not among the documented placeholders
			return engine.Result{Skipped: true}
		}
	}
	if len(Comments(c.Src)) == 0 {
		return engine.Result{Skipped: true}
	}
	prob, det, out, ok := c15once(c.Src, c.Conf)
	if !ok {
		return engine.Result{Skipped: true}
	}
	if prob == "" {
		return engine.Result{NonTrivial: true, Outcome: "kept"}
	}
	if w, _ := swallowed(c.Src, out, c.Conf); w != "" {
		prob = "swallowed"
	}
	label, msrc := attribute(c, func(src string) bool {
		p2, _, o2, ok2 := c15once(src, c.Conf)
		if ok2 && prob == "swallowed" {
			w, _ := swallowed(src, o2, c.Conf)
			return w != ""
		}
		return ok2 && p2 == prob
	})
	if prob == "swallowed" {
		label = nodeOfLabel(label, c)
		return engine.Result{NonTrivial: true, Outcome: prob, Findings: []engine.Finding{{
			Class:  prob + "|" + label + "|default",
			What:   fmt.Sprintf("a line comment at an inline placeholder is printed without its line break and swallows code: %s [%s]", det, c.From),
			Detail: map[string]string{"src": msrc},
		}}}
	}
	devs := minimalDevs(c, func(cf config.FormatConfig) bool {
		p2, _, _, ok2 := c15once(msrc, cf)
		return ok2 && p2 == prob
	})
	if msrc != c.Src {
		_, det, out, _ = c15once(msrc, c.Conf)
	}
	return engine.Result{NonTrivial: true, Outcome: prob, Findings: []engine.Finding{{
		Class:  prob + "|" + label + "|" + devs,
		What:   fmt.Sprintf("%s [%s; config %s]", det, c.From, devKey(c.Devs)),
		Detail: map[string]string{"src": msrc, "formatted": out},
	}}}
}

func init() {
	common := "programs = all statement/declaration derivations within 2 (quick) / 3 (thorough) deviations + 4 wide programs that force wrapping + every example file; configurations = default, all 23 single deviations from the documented defaults for every program, all pairs (quick) / triples (thorough) for programs within 1 deviation and pairs for example files, plus the all-options corner; comment decorations = every documented placeholder (and every pair; thorough: triple) of every program within 1 deviation x {#, //, /* */} and falco annotation / #FASTLY comments at leading slots, under 10 comment-relevant configurations (single comments and the all-placeholders cases also under 8 more: should_use_unset, else_if, explicit_string_concat=false, align_declaration_property, sort_declaration, break_compound_conditions=false, tabs, line_width=40); an empty line in front of every leading placeholder, and before / after / around a # and a block comment at every placeholder; every placeholder filled at once, with and without empty lines around the own-line comments; 120 wide programs (else-if width sweeps, multi-line long strings, two long strings on one line); placeholders before / after the arguments of a call inside an expression (not documented: left out by C15); the # and // comments carry text that would open a block comment or a long string if it were code; a comment plus, at every later own-line placeholder, a comment separated from its statement by an empty line; distinct = distinct (source, configuration)"
	engine.Register(engine.Spec[Case]{
		ID: "C03", Level: "exploration", Gen: Gen, Key: Key, Run: runC03,
		Rule: common + "; oracle: formatted text parses and its tree equals the original's modulo exactly the documented rewrites of the options that are on; non-trivial = input parses",
		Assumptions: []string{"tree comparison ignores Meta (positions, comments), the Explicit flag of +, HasComma, and HasParenthesis when return_statement_parenthesis is on; else-if keyword, remove/unset and property/declaration order are normalised only when the corresponding option is on"},
	})
	engine.Register(engine.Spec[Case]{
		ID: "C14", Level: "exploration", Gen: Gen, Key: Key, Run: runC14,
		Rule: common + "; oracle: F(P(F(P(s)))) == F(P(s)) byte for byte; cases whose first output does not parse are C03's and skipped here; non-trivial = both passes produced text",
	})
	engine.Register(engine.Spec[Case]{
		ID: "C15", Level: "exploration", Gen: Gen, Key: Key, Run: runC15,
		Rule: common + "; oracle: the sequence of COMMENT tokens of the output equals that of the input after mapping line-comment markers per comment_style; cases without comments are skipped; non-trivial = input has >=1 comment and the formatter produced text",
		Assumptions: []string{"comments are extracted with falco's lexer from input and output text", "trailing whitespace inside a line comment is layout"},
	})
}
