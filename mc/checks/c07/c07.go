// Package c07: expressions and assignments compute what VCL semantics prescribe
// (comparison against an independent reference evaluator; duality laws on the
// implementation alone; ACL longest-prefix reference).
package c07

import (
	"os"
	"path/filepath"
	"sync"
	"fmt"
	"math"
	"math/bits"
	"net"
	"regexp"
	"strconv"
	"strings"

	"verif/mc/engine"
	"verif/mc/sim"
)

// Case is a rendered probe subroutine and the log lines the reference predicts.
type Case struct {
	Kind  string   `json:"kind"` // assign | cond | dual | branch | switch | notset | acl
	Decls string   `json:"decls,omitempty"`
	Probe string   `json:"probe"`
	Want  []string `json:"want"`  // expected log lines ("" entries are not compared)
	Class string   `json:"class"` // class-key stem
	Pin   string   `json:"pin,omitempty"` // pinned kind: key into the committed snapshot of the pinned tree's behaviour
}

// ---------------------------------------------------------------------------
// reference renderings (Fastly documentation: decimal; 3 decimals; seconds with 3 decimals)

func rInt(v int64) string     { return strconv.FormatInt(v, 10) }
func rFloat(v float64) string { return strconv.FormatFloat(v, 'f', 3, 64) }
func rRTime(ms int64) string  { return strconv.FormatFloat(float64(ms)/1000, 'f', 3, 64) }
func rBool(b bool) string {
	if b {
		return "1"
	}
	return "0"
}

func litInt(v int64) string {
	if v == math.MinInt64 {
		return "-0x8000000000000000"
	}
	return strconv.FormatInt(v, 10)
}

func litFloat(v float64) string {
	s := strconv.FormatFloat(v, 'f', -1, 64)
	if !strings.Contains(s, ".") {
		s += ".0"
	}
	return s
}

func litRTime(ms int64) string {
	if ms%1000 == 0 {
		return fmt.Sprintf("%ds", ms/1000)
	}
	return fmt.Sprintf("%dms", ms)
}

// ---------------------------------------------------------------------------
// (1) assignments

var ints = []int64{0, 1, -1, 2, 7, 64, 1 << 31, math.MaxInt64, -7, 63}
var floats = []float64{0, 0.5, -1.5, 2, 1000}
var rtimes = []int64{0, 1000, 1500, 60000} // milliseconds

// refInt returns the result of `a op= b` when the reference defines it.
func refInt(a int64, op string, b int64) (int64, bool) {
	switch op {
	case "=":
		return b, true
	case "+=":
		s := a + b
		if (b > 0 && s < a) || (b < 0 && s > a) {
			return 0, false
		}
		return s, true
	case "-=":
		s := a - b
		if (b > 0 && s > a) || (b < 0 && s < a) {
			return 0, false
		}
		return s, true
	case "*=":
		if a == 0 || b == 0 {
			return 0, true
		}
		hi, lo := bits.Mul64(uint64(abs(a)), uint64(abs(b)))
		if hi != 0 || lo > math.MaxInt64 {
			return 0, false
		}
		return a * b, true
	case "/=":
		if b == 0 || (a == math.MinInt64 && b == -1) {
			return 0, false
		}
		return a / b, true // truncates toward zero
	case "%=":
		if b == 0 || (a == math.MinInt64 && b == -1) {
			return 0, false
		}
		return a % b, true // sign of the dividend
	case "|=":
		return a | b, true
	case "&=":
		return a & b, true
	case "^=":
		return a ^ b, true
	case "<<=":
		if b < 0 || b > 63 {
			return 0, false
		}
		r := a << uint(b)
		if r>>uint(b) != a { // bits lost: outside the defined range
			return 0, false
		}
		return r, true
	case ">>=":
		if b < 0 || b > 63 || a < 0 {
			return 0, false
		}
		return a >> uint(b), true
	case "rol=":
		if b < 0 || b > 63 {
			return 0, false
		}
		return int64(bits.RotateLeft64(uint64(a), int(b))), true
	case "ror=":
		if b < 0 || b > 63 {
			return 0, false
		}
		return int64(bits.RotateLeft64(uint64(a), -int(b))), true
	}
	return 0, false
}

func abs(a int64) int64 {
	if a < 0 {
		return -a
	}
	return a
}

func refFloat(a float64, op string, b float64) (float64, bool) {
	var r float64
	switch op {
	case "=":
		r = b
	case "+=":
		r = a + b
	case "-=":
		r = a - b
	case "*=":
		r = a * b
	case "/=":
		if b == 0 {
			return 0, false
		}
		r = a / b
	default:
		return 0, false
	}
	if math.IsInf(r, 0) || math.IsNaN(r) {
		return 0, false
	}
	return r, true
}

var intOps = []string{"=", "+=", "-=", "*=", "/=", "%=", "|=", "&=", "^=", "<<=", ">>=", "rol=", "ror="}

func genAssign(emit func(Case)) {
	for _, a := range ints {
		for _, op := range intOps {
			for _, b := range ints {
				want, ok := refInt(a, op, b)
				if !ok {
					continue
				}
				for _, viaVar := range []bool{false, true} {
					var p strings.Builder
					fmt.Fprintf(&p, "sub probe {\n  declare local var.t INTEGER;\n  set var.t = %s;\n", litInt(a))
					operand := litInt(b)
					if viaVar {
						fmt.Fprintf(&p, "  declare local var.o INTEGER;\n  set var.o = %s;\n", litInt(b))
						operand = "var.o"
					}
					fmt.Fprintf(&p, "  set var.t %s %s;\n  log \"r=\" var.t;\n", op, operand)
					if viaVar {
						p.WriteString("  log \"o=\" var.o;\n")
					}
					p.WriteString("}\n")
					w := []string{"r=" + rInt(want)}
					if viaVar {
						w = append(w, "o="+rInt(b))
					}
					emit(Case{Kind: "assign", Probe: p.String(), Want: w, Class: fmt.Sprintf("assign INTEGER %s %s", op, operandClass(a, b))})
				}
			}
		}
	}
	for _, a := range floats {
		for _, op := range []string{"=", "+=", "-=", "*=", "/="} {
			for _, b := range floats {
				want, ok := refFloat(a, op, b)
				if !ok {
					continue
				}
				for _, viaVar := range []bool{false, true} {
					var p strings.Builder
					fmt.Fprintf(&p, "sub probe {\n  declare local var.t FLOAT;\n  set var.t = %s;\n", litFloat(a))
					operand := litFloat(b)
					if viaVar {
						fmt.Fprintf(&p, "  declare local var.o FLOAT;\n  set var.o = %s;\n", litFloat(b))
						operand = "var.o"
					}
					fmt.Fprintf(&p, "  set var.t %s %s;\n  log \"r=\" var.t;\n}\n", op, operand)
					emit(Case{Kind: "assign", Probe: p.String(), Want: []string{"r=" + rFloat(want)}, Class: "assign FLOAT " + op})
				}
			}
			// FLOAT op= INTEGER by value
			for _, b := range []int64{0, 1, -1, 2, 7} {
				want, ok := refFloat(a, op, float64(b))
				if !ok {
					continue
				}
				p := fmt.Sprintf("sub probe {\n  declare local var.t FLOAT;\n  set var.t = %s;\n  declare local var.o INTEGER;\n  set var.o = %s;\n  set var.t %s var.o;\n  log \"r=\" var.t;\n}\n", litFloat(a), litInt(b), op)
				emit(Case{Kind: "assign", Probe: p, Want: []string{"r=" + rFloat(want)}, Class: "assign FLOAT " + op + " INTEGER"})
			}
		}
	}
	for _, a := range rtimes {
		for _, op := range []string{"=", "+=", "-="} {
			for _, b := range rtimes {
				var want int64
				switch op {
				case "=":
					want = b
				case "+=":
					want = a + b
				case "-=":
					want = a - b
				}
				for _, viaVar := range []bool{false, true} {
					var p strings.Builder
					fmt.Fprintf(&p, "sub probe {\n  declare local var.t RTIME;\n  set var.t = %s;\n", litRTime(a))
					operand := litRTime(b)
					if viaVar {
						fmt.Fprintf(&p, "  declare local var.o RTIME;\n  set var.o = %s;\n", litRTime(b))
						operand = "var.o"
					}
					fmt.Fprintf(&p, "  set var.t %s %s;\n  log \"r=\" var.t;\n}\n", op, operand)
					emit(Case{Kind: "assign", Probe: p.String(), Want: []string{"r=" + rRTime(want)}, Class: "assign RTIME " + op})
				}
			}
		}
	}
	for _, a := range []bool{true, false} {
		for _, op := range []string{"=", "&&=", "||="} {
			for _, b := range []bool{true, false} {
				want := b
				switch op {
				case "&&=":
					want = a && b
				case "||=":
					want = a || b
				}
				for _, viaVar := range []bool{false, true} {
					var p strings.Builder
					fmt.Fprintf(&p, "sub probe {\n  declare local var.t BOOL;\n  set var.t = %v;\n", a)
					operand := fmt.Sprint(b)
					if viaVar {
						fmt.Fprintf(&p, "  declare local var.o BOOL;\n  set var.o = %v;\n", b)
						operand = "var.o"
					}
					fmt.Fprintf(&p, "  set var.t %s %s;\n  if (var.t) { log \"r=1\"; } else { log \"r=0\"; }\n}\n", op, operand)
					emit(Case{Kind: "assign", Probe: p.String(), Want: []string{"r=" + rBool(want)}, Class: "assign BOOL " + op})
				}
			}
		}
	}
	// declaration defaults and STRING renderings of other types (variables only)
	emit(Case{Kind: "assign", Class: "defaults",
		Probe: "sub probe {\n  declare local var.i INTEGER;\n  declare local var.f FLOAT;\n  declare local var.b BOOL;\n  declare local var.r RTIME;\n  declare local var.s STRING;\n  log \"i=\" var.i;\n  log \"f=\" var.f;\n  if (var.b) { log \"b=1\"; } else { log \"b=0\"; }\n  log \"r=\" var.r;\n  if (var.s) { log \"s=set\"; } else { log \"s=notset\"; }\n}\n",
		Want: []string{"i=0", "f=0.000", "b=0", "r=0.000", "s=notset"}})
	for _, i := range ints {
		emit(Case{Kind: "assign", Class: "render INTEGER",
			Probe: fmt.Sprintf("sub probe {\n  declare local var.i INTEGER;\n  declare local var.s STRING;\n  set var.i = %s;\n  set var.s = var.i;\n  log \"s=\" var.s;\n  set var.s = \"p\" var.i \"q\";\n  log \"c=\" var.s;\n}\n", litInt(i)),
			Want: []string{"s=" + rInt(i), "c=p" + rInt(i) + "q"}})
	}
	for _, f := range floats {
		emit(Case{Kind: "assign", Class: "render FLOAT",
			Probe: fmt.Sprintf("sub probe {\n  declare local var.f FLOAT;\n  declare local var.s STRING;\n  set var.f = %s;\n  set var.s = var.f;\n  log \"s=\" var.s;\n}\n", litFloat(f)),
			Want: []string{"s=" + rFloat(f)}})
	}
	for _, r := range rtimes {
		emit(Case{Kind: "assign", Class: "render RTIME",
			Probe: fmt.Sprintf("sub probe {\n  declare local var.r RTIME;\n  declare local var.s STRING;\n  set var.r = %s;\n  set var.s = var.r;\n  log \"s=\" var.s;\n}\n", litRTime(r)),
			Want: []string{"s=" + rRTime(r)}})
	}
	for _, b := range []bool{true, false} {
		emit(Case{Kind: "assign", Class: "render BOOL",
			Probe: fmt.Sprintf("sub probe {\n  declare local var.b BOOL;\n  declare local var.s STRING;\n  set var.b = %v;\n  set var.s = var.b;\n  log \"s=\" var.s;\n}\n", b),
			Want: []string{"s=" + rBool(b)}})
	}
	// STRING += and concatenation
	for _, a := range []string{"", "a", "ab"} {
		for _, b := range []string{"", "x", "1"} {
			emit(Case{Kind: "assign", Class: "assign STRING +=",
				Probe: fmt.Sprintf("sub probe {\n  declare local var.s STRING;\n  set var.s = \"%s\";\n  set var.s += \"%s\";\n  log \"s=\" var.s;\n  set req.http.H = \"%s\";\n  set req.http.H += \"%s\";\n  log \"h=\" req.http.H;\n}\n", a, b, a, b),
				Want: []string{"s=" + a + b, "h=" + a + b}})
		}
	}
	// += as the first write to a STRING that was never assigned: the target holds the operand and is set afterwards
	for _, b := range []string{"x", "1", "abc"} {
		emit(Case{Kind: "assign", Class: "assign STRING += on a not-set target",
			Probe: fmt.Sprintf("sub probe {\n  declare local var.s STRING;\n  set var.s += \"%s\";\n  log \"s=\" var.s;\n  if (var.s) { log \"s:set\"; } else { log \"s:notset\"; }\n  if (var.s == \"%s\") { log \"s:eq\"; } else { log \"s:ne\"; }\n  log \"c=<\" var.s \">\";\n  set req.http.Copy = var.s;\n  if (req.http.Copy) { log \"copy:set\"; } else { log \"copy:notset\"; }\n  set req.http.Fresh += \"%s\";\n  log \"h=\" req.http.Fresh;\n  if (req.http.Fresh) { log \"h:set\"; } else { log \"h:notset\"; }\n}\n", b, b, b),
			Want: []string{"s=" + b, "s:set", "s:eq", "c=<" + b + ">", "copy:set", "h=" + b, "h:set"}})
	}
}

func operandClass(a, b int64) string {
	c := func(v int64) string {
		switch {
		case v == 0:
			return "zero"
		case v < 0:
			return "negative"
		case v >= 1<<31:
			return "large"
		}
		return "small"
	}
	return c(a) + "," + c(b)
}

// ---------------------------------------------------------------------------
// (2) conditions and duality

type atom struct {
	typ  string
	expr string // VCL text (a local declared in the prelude, or a literal)
	// reference value
	i    int64
	f    float64
	s    string
	set  bool
	b    bool
}

const condPrelude = `  declare local var.i0 INTEGER; set var.i0 = 0;
  declare local var.i1 INTEGER; set var.i1 = 1;
  declare local var.in INTEGER; set var.in = -1;
  declare local var.i7 INTEGER; set var.i7 = 7;
  declare local var.f0 FLOAT; set var.f0 = 0.5;
  declare local var.f1 FLOAT; set var.f1 = 1.0;
  declare local var.fn FLOAT; set var.fn = -1.5;
  declare local var.r1 RTIME; set var.r1 = 1s;
  declare local var.r2 RTIME; set var.r2 = 1500ms;
  declare local var.se STRING; set var.se = "";
  declare local var.sa STRING; set var.sa = "a";
  declare local var.sb STRING; set var.sb = "ab";
  declare local var.s1 STRING; set var.s1 = "1";
  declare local var.bt BOOL; set var.bt = true;
  declare local var.bf BOOL; set var.bf = false;
  set req.http.Ha = "a";
  set req.http.Hab = "ab";
  unset req.http.Hn;
`

func atoms() []atom {
	return []atom{
		{typ: "INTEGER", expr: "var.i0", i: 0}, {typ: "INTEGER", expr: "var.i1", i: 1}, {typ: "INTEGER", expr: "var.in", i: -1}, {typ: "INTEGER", expr: "var.i7", i: 7},
		{typ: "INTEGER", expr: "1", i: 1}, {typ: "INTEGER", expr: "7", i: 7},
		{typ: "FLOAT", expr: "var.f0", f: 0.5}, {typ: "FLOAT", expr: "var.f1", f: 1}, {typ: "FLOAT", expr: "var.fn", f: -1.5}, {typ: "FLOAT", expr: "1.0", f: 1},
		{typ: "RTIME", expr: "var.r1", i: 1000}, {typ: "RTIME", expr: "var.r2", i: 1500}, {typ: "RTIME", expr: "1s", i: 1000},
		{typ: "STRING", expr: "var.sa", s: "a", set: true}, {typ: "STRING", expr: "var.sb", s: "ab", set: true}, {typ: "STRING", expr: "var.s1", s: "1", set: true},
		{typ: "STRING", expr: "req.http.Ha", s: "a", set: true}, {typ: "STRING", expr: "req.http.Hab", s: "ab", set: true}, {typ: "STRING", expr: "req.http.Hn", s: "", set: false},
		{typ: "STRING", expr: `"a"`, s: "a", set: true}, {typ: "STRING", expr: `"ab"`, s: "ab", set: true},
	}
}

func isLiteral(a atom) bool { return !strings.HasPrefix(a.expr, "var.") && !strings.HasPrefix(a.expr, "req.") }

// refCompare: (value, defined)
func refCompare(l atom, op string, r atom) (bool, bool) {
	num := func(a atom) (float64, bool) {
		switch a.typ {
		case "INTEGER":
			return float64(a.i), true
		case "FLOAT":
			return a.f, true
		}
		return 0, false
	}
	switch {
	case l.typ == "STRING" && r.typ == "STRING":
		switch op {
		case "==":
			return l.set && r.set && l.s == r.s, true
		case "!=":
			return !(l.set && r.set && l.s == r.s), true
		}
		return false, false
	case l.typ == "RTIME" && r.typ == "RTIME":
		return cmpNum(float64(l.i), op, float64(r.i))
	}
	// mixed INTEGER/FLOAT comparisons are not part of the core language (the type table
	// rejects most of them): only same-type numeric comparisons are defined
	lf, lok := num(l)
	rf, rok := num(r)
	if lok && rok && l.typ == r.typ {
		return cmpNum(lf, op, rf)
	}
	return false, false
}

func cmpNum(a float64, op string, b float64) (bool, bool) {
	switch op {
	case "==":
		return a == b, true
	case "!=":
		return a != b, true
	case "<":
		return a < b, true
	case ">":
		return a > b, true
	case "<=":
		return a <= b, true
	case ">=":
		return a >= b, true
	}
	return false, false
}

var dualOf = map[string]string{"<": ">", ">": "<", "<=": ">=", ">=": "<="}

func condProbe(conds []string) string {
	var p strings.Builder
	p.WriteString("sub probe {\n" + condPrelude)
	for i, c := range conds {
		fmt.Fprintf(&p, "  if (%s) { log \"c%d=T\"; } else { log \"c%d=F\"; }\n", c, i, i)
	}
	p.WriteString("}\n")
	return p.String()
}

func tf(b bool) string {
	if b {
		return "T"
	}
	return "F"
}

var patterns = []struct {
	re string
}{{"a"}, {"^a$"}, {"^ab"}, {"b$"}, {"[0-9]"}, {"^$"}, {"(a)(b)?"}, {"a|1"}}

func genConds(emit func(Case)) {
	as := atoms()
	type cnd struct {
		text string
		val  bool
	}
	var leaves []cnd
	for _, l := range as {
		for _, op := range []string{"==", "!=", "<", ">", "<=", ">="} {
			for _, r := range as {
				if isLiteral(l) {
					continue // a literal cannot be the left operand
				}
				want, ok := refCompare(l, op, r)
				if !ok {
					continue
				}
				text := fmt.Sprintf("%s %s %s", l.expr, op, r.expr)
				emit(Case{Kind: "cond", Probe: condProbe([]string{text}), Want: []string{"c0=" + tf(want)}, Class: fmt.Sprintf("compare %s %s %s", l.typ, op, r.typ)})
				leaves = append(leaves, cnd{text, want})
				// duality on the implementation alone: both forms in one run must agree
				if d, ok := dualOf[op]; ok && !isLiteral(r) {
					emit(Case{Kind: "dual", Probe: condProbe([]string{text, fmt.Sprintf("%s %s %s", r.expr, d, l.expr)}), Want: []string{"DUAL-EQUAL"}, Class: fmt.Sprintf("duality %s/%s %s,%s", op, d, l.typ, r.typ)})
				}
				if op == "==" {
					emit(Case{Kind: "dual", Probe: condProbe([]string{text, fmt.Sprintf("%s != %s", l.expr, r.expr)}), Want: []string{"DUAL-NEGATED"}, Class: fmt.Sprintf("duality ==/!= %s,%s", l.typ, r.typ)})
				}
			}
		}
	}
	// regex
	for _, l := range as {
		if l.typ != "STRING" || isLiteral(l) {
			continue
		}
		for _, p := range patterns {
			m := false
			if l.set || true {
				m = regexp.MustCompile(p.re).MatchString(l.s)
			}
			if !l.set {
				// a not-set subject: the documentation does not say whether it matches the empty pattern; only duality is checked
				emit(Case{Kind: "dual", Probe: condProbe([]string{fmt.Sprintf("%s ~ \"%s\"", l.expr, p.re), fmt.Sprintf("%s !~ \"%s\"", l.expr, p.re)}), Want: []string{"DUAL-NEGATED"}, Class: "duality ~/!~ notset"})
				continue
			}
			text := fmt.Sprintf("%s ~ \"%s\"", l.expr, p.re)
			emit(Case{Kind: "cond", Probe: condProbe([]string{text}), Want: []string{"c0=" + tf(m)}, Class: "regex match"})
			emit(Case{Kind: "cond", Probe: condProbe([]string{fmt.Sprintf("%s !~ \"%s\"", l.expr, p.re)}), Want: []string{"c0=" + tf(!m)}, Class: "regex not-match"})
			emit(Case{Kind: "dual", Probe: condProbe([]string{text, fmt.Sprintf("%s !~ \"%s\"", l.expr, p.re)}), Want: []string{"DUAL-NEGATED"}, Class: "duality ~/!~"})
			leaves = append(leaves, cnd{text, m})
		}
	}
	// truthiness leaves
	truth := []cnd{{"var.bt", true}, {"var.bf", false}, {"req.http.Ha", true}, {"req.http.Hn", false}, {"var.sa", true}}
	for _, t := range truth {
		emit(Case{Kind: "cond", Probe: condProbe([]string{t.text}), Want: []string{"c0=" + tf(t.val)}, Class: "truthiness"})
		emit(Case{Kind: "cond", Probe: condProbe([]string{"!" + t.text}), Want: []string{"c0=" + tf(!t.val)}, Class: "prefix-not"})
	}
	// depth 2: logical combinations over a reduced leaf set (every 37th comparison leaf + all truthiness leaves)
	var small []cnd
	for i, l := range leaves {
		if i%37 == 0 {
			small = append(small, l)
		}
	}
	small = append(small, truth...)
	for _, a := range small {
		for _, b := range small {
			emit(Case{Kind: "cond", Probe: condProbe([]string{fmt.Sprintf("%s && %s", a.text, b.text)}), Want: []string{"c0=" + tf(a.val && b.val)}, Class: "logical &&"})
			emit(Case{Kind: "cond", Probe: condProbe([]string{fmt.Sprintf("%s || %s", a.text, b.text)}), Want: []string{"c0=" + tf(a.val || b.val)}, Class: "logical ||"})
			emit(Case{Kind: "cond", Probe: condProbe([]string{fmt.Sprintf("!(%s) && %s", a.text, b.text)}), Want: []string{"c0=" + tf(!a.val && b.val)}, Class: "logical !&&"})
			emit(Case{Kind: "cond", Probe: condProbe([]string{fmt.Sprintf("%s || %s && %s", a.text, b.text, a.text)}), Want: []string{"c0=" + tf(a.val || (b.val && a.val))}, Class: "logical precedence"})
		}
	}
}

// ---------------------------------------------------------------------------
// (3) branching: if chains, switch, not-set propagation

func genBranches(tier string, emit func(Case)) {
	conds := []struct {
		text string
		val  bool
	}{{"var.bt", true}, {"var.bf", false}, {"req.http.Hn", false}, {"req.http.Ha == \"a\"", true}, {"var.i7 < var.i1", false}}
	// if / else if / else: every truth assignment of chains up to 3 conditions, with and without else
	for n := 1; n <= 3; n++ {
		idx := make([]int, n)
		var rec func(k int)
		rec = func(k int) {
			if k == n {
				for _, withElse := range []bool{false, true} {
					var p strings.Builder
					p.WriteString("sub probe {\n" + condPrelude)
					taken := "none"
					for j := 0; j < n; j++ {
						kw := "if"
						if j > 0 {
							kw = []string{"else if", "elseif", "elsif"}[j%3]
						}
						fmt.Fprintf(&p, "  %s (%s) { log \"arm=%d\"; }\n", kw, conds[idx[j]].text, j)
						if taken == "none" && conds[idx[j]].val {
							taken = fmt.Sprint(j)
						}
					}
					if withElse {
						p.WriteString("  else { log \"arm=else\"; }\n")
						if taken == "none" {
							taken = "else"
						}
					}
					p.WriteString("  log \"end\";\n}\n")
					var want []string
					if taken != "none" {
						want = append(want, "arm="+taken)
					}
					want = append(want, "end")
					emit(Case{Kind: "branch", Probe: p.String(), Want: want, Class: fmt.Sprintf("if-chain len=%d else=%v", n, withElse)})
				}
				return
			}
			for i := range conds {
				idx[k] = i
				rec(k + 1)
			}
		}
		rec(0)
	}
	// switch: control x arrangements of up to 3 cases (== or ~ tests), fallthrough flags, default position
	controls := []struct{ expr, val string }{{`"a"`, "a"}, {`"ab"`, "ab"}, {`"zz"`, "zz"}, {"req.http.Ha", "a"}, {"req.http.Hab", "ab"}}
	tests := []tc{{"==", "a"}, {"==", "ab"}, {"~", "^a"}, {"~", "b$"}, {"==", "q"}}
	maxCases := 3
	if tier == "thorough" {
		maxCases = 4
	}
	for _, ctl := range controls {
		for n := 1; n <= maxCases; n++ {
			sel := make([]int, n)
			var rec func(k int)
			rec = func(k int) {
				if k == n {
					// distinct == labels only (duplicate case labels are a parse error)
					seen := map[string]bool{}
					for _, s := range sel {
						key := tests[s].op + tests[s].arg
						if seen[key] {
							return
						}
						seen[key] = true
					}
					for ft := 0; ft < 1<<n; ft++ {
						for dpos := -1; dpos <= n; dpos++ {
							// default position: -1 none, else index in the list of n+1 slots
							if ft&(1<<(n-1)) != 0 && dpos != n {
								continue // a final fallthrough is a syntax error: only allowed when default follows
							}
							emitSwitch(emit, ctl.expr, ctl.val, tests2(tests, sel), ft, dpos)
						}
					}
					return
				}
				for i := range tests {
					sel[k] = i
					rec(k + 1)
				}
			}
			rec(0)
		}
	}
	// not-set propagation
	emit(Case{Kind: "notset", Class: "notset to local",
		Probe: "sub probe {\n  unset req.http.Hn;\n  declare local var.s STRING;\n  set var.s = req.http.Hn;\n  if (var.s) { log \"s=set\"; } else { log \"s=notset\"; }\n  log \"v=[\" var.s \"]\";\n  if (var.s == \"\") { log \"eq=T\"; } else { log \"eq=F\"; }\n}\n",
		Want: []string{"s=set", "v=[]", "eq=T"}})
	emit(Case{Kind: "notset", Class: "notset header copy",
		Probe: "sub probe {\n  unset req.http.Hn;\n  set req.http.Copy = req.http.Hn;\n  if (req.http.Copy) { log \"c=set\"; } else { log \"c=notset\"; }\n  if (req.http.Hn == req.http.Hn) { log \"self=T\"; } else { log \"self=F\"; }\n  if (req.http.Hn != req.http.Hn) { log \"nself=T\"; } else { log \"nself=F\"; }\n  if (!req.http.Hn) { log \"not=T\"; } else { log \"not=F\"; }\n}\n",
		Want: []string{"c=notset", "self=F", "nself=T", "not=T"}})
}

type tc struct{ op, arg string }

func tests2(all []tc, sel []int) []tc {
	var out []tc
	for _, s := range sel {
		out = append(out, tc{all[s].op, all[s].arg})
	}
	return out
}

func emitSwitch(emit func(Case), ctlExpr, ctlVal string, cases []tc, ft int, dpos int) {
	// build the ordered list of arms: cases with the default inserted at dpos
	type arm struct {
		isDefault bool
		t         tc
		fall      bool
		id        string
	}
	var arms []arm
	ci := 0
	total := len(cases)
	if dpos >= 0 {
		total++
	}
	for pos := 0; pos < total; pos++ {
		if pos == dpos {
			arms = append(arms, arm{isDefault: true, id: "default"})
			continue
		}
		arms = append(arms, arm{t: cases[ci], fall: ft&(1<<ci) != 0, id: fmt.Sprintf("case%d", ci)})
		ci++
	}
	if arms[len(arms)-1].fall {
		return
	}
	var p strings.Builder
	p.WriteString("sub probe {\n" + condPrelude)
	fmt.Fprintf(&p, "  switch (%s) {\n", ctlExpr)
	for _, a := range arms {
		if a.isDefault {
			fmt.Fprintf(&p, "  default:\n    log \"in=default\";\n    break;\n")
			continue
		}
		if a.t.op == "~" {
			fmt.Fprintf(&p, "  case ~ \"%s\":\n", a.t.arg)
		} else {
			fmt.Fprintf(&p, "  case \"%s\":\n", a.t.arg)
		}
		fmt.Fprintf(&p, "    log \"in=%s\";\n", a.id)
		if a.fall {
			p.WriteString("    fallthrough;\n")
		} else {
			p.WriteString("    break;\n")
		}
	}
	p.WriteString("  }\n  log \"end\";\n}\n")
	// reference: cases tested in source order; first match runs; fallthrough continues into the next arm's
	// body; default only when no case matched, wherever it is written
	matchIdx := -1
	for i, a := range arms {
		if a.isDefault {
			continue
		}
		var m bool
		if a.t.op == "~" {
			m = regexp.MustCompile(a.t.arg).MatchString(ctlVal)
		} else {
			m = a.t.arg == ctlVal
		}
		if m {
			matchIdx = i
			break
		}
	}
	var want []string
	if matchIdx < 0 {
		for i, a := range arms {
			if a.isDefault {
				matchIdx = i
			}
		}
	}
	if matchIdx >= 0 {
		for i := matchIdx; i < len(arms); i++ {
			want = append(want, "in="+arms[i].id)
			if !arms[i].fall {
				break
			}
		}
	}
	want = append(want, "end")
	emit(Case{Kind: "switch", Probe: p.String(), Want: want, Class: fmt.Sprintf("switch cases=%d default=%s", len(cases), dposClass(dpos, len(cases)))})
}

func dposClass(dpos, n int) string {
	switch {
	case dpos < 0:
		return "none"
	case dpos == 0:
		return "first"
	case dpos == n:
		return "last"
	}
	return "middle"
}

// ---------------------------------------------------------------------------
// (4) ACL: longest prefix with negation

type aclEntry struct {
	ip   string
	mask int // -1: omitted (single host)
	neg  bool
	net  *net.IPNet
}

func (e aclEntry) text() string {
	s := ""
	if e.neg {
		s = "!"
	}
	s += fmt.Sprintf("\"%s\"", e.ip)
	if e.mask >= 0 {
		s += fmt.Sprintf("/%d", e.mask)
	}
	return s + ";"
}

func v4Alphabet() []aclEntry {
	var out []aclEntry
	for bitsLen := 28; bitsLen <= 32; bitsLen++ {
		step := 1 << (32 - bitsLen)
		for base := 0; base < 16; base += step {
			for _, neg := range []bool{false, true} {
				ip := fmt.Sprintf("10.0.0.%d", base)
				mask := bitsLen
				_, n, _ := net.ParseCIDR(fmt.Sprintf("%s/%d", ip, bitsLen))
				if bitsLen == 32 {
					mask = -1 // hosts are written without mask
				}
				out = append(out, aclEntry{ip: ip, mask: mask, neg: neg, net: n})
			}
		}
	}
	return out
}

func v6Alphabet() []aclEntry {
	var out []aclEntry
	for bitsLen := 125; bitsLen <= 128; bitsLen++ {
		step := 1 << (128 - bitsLen)
		for base := 0; base < 8; base += step {
			for _, neg := range []bool{false, true} {
				ip := fmt.Sprintf("2001:db8::%x", base)
				mask := bitsLen
				_, n, _ := net.ParseCIDR(fmt.Sprintf("%s/%d", ip, bitsLen))
				if bitsLen == 128 {
					mask = -1
				}
				out = append(out, aclEntry{ip: ip, mask: mask, neg: neg, net: n})
			}
		}
	}
	return out
}

// refACL: the most specific entry containing the address decides; undefined when two
// entries of the same prefix length with opposite negation both contain it.
func refACL(entries []aclEntry, addr net.IP) (bool, bool) {
	best, match, conflict := -1, false, false
	for _, e := range entries {
		if !e.net.Contains(addr) {
			continue
		}
		ones, _ := e.net.Mask.Size()
		switch {
		case ones > best:
			best, match, conflict = ones, !e.neg, false
		case ones == best && match == e.neg:
			conflict = true
		}
	}
	if conflict {
		return false, false
	}
	return match, true
}

func emitACL(emit func(Case), entries []aclEntry, addrs []string, fam string) {
	var d strings.Builder
	d.WriteString("acl probe_acl {\n")
	for _, e := range entries {
		d.WriteString("  " + e.text() + "\n")
	}
	d.WriteString("}\n")
	var p strings.Builder
	p.WriteString("sub probe {\n  declare local var.ip IP;\n")
	var want []string
	for i, a := range addrs {
		fmt.Fprintf(&p, "  set var.ip = \"%s\";\n  if (var.ip ~ probe_acl) { log \"a%d=T\"; } else { log \"a%d=F\"; }\n", a, i, i)
		m, ok := refACL(entries, net.ParseIP(a))
		if ok {
			want = append(want, fmt.Sprintf("a%d=%s", i, tf(m)))
		} else {
			want = append(want, "")
		}
	}
	p.WriteString("}\n")
	neg := 0
	for _, e := range entries {
		if e.neg {
			neg++
		}
	}
	emit(Case{Kind: "acl", Decls: d.String(), Probe: p.String(), Want: want, Class: fmt.Sprintf("acl %s entries=%d negated=%d", fam, len(entries), min(neg, 2))})
}

func genACL(tier string, emit func(Case)) {
	var a4 []string
	for i := 0; i < 16; i++ {
		a4 = append(a4, fmt.Sprintf("10.0.0.%d", i))
	}
	a4 = append(a4, "10.0.0.16", "192.168.1.1")
	var a6 []string
	for i := 0; i < 8; i++ {
		a6 = append(a6, fmt.Sprintf("2001:db8::%x", i))
	}
	a6 = append(a6, "2001:db8::8", "::1")
	max4 := 3
	if tier == "thorough" {
		max4 = 4
	}
	for _, fam := range []struct {
		name  string
		alpha []aclEntry
		addrs []string
		max   int
	}{{"ipv4", v4Alphabet(), a4, max4}, {"ipv6", v6Alphabet(), a6, max4}} {
		emitACL(emit, nil, fam.addrs, fam.name)
		var rec func(cur []aclEntry)
		rec = func(cur []aclEntry) {
			if len(cur) > 0 {
				emitACL(emit, cur, fam.addrs, fam.name)
			}
			if len(cur) == fam.max {
				return
			}
			for _, e := range fam.alpha {
				rec(append(append([]aclEntry{}, cur...), e))
			}
		}
		rec(nil)
	}
	// wide masks: prefix lengths at and next to the byte boundaries, /0 and /1, with addresses inside,
	// on the boundary of and outside each entry (the 4-bit sub-space above only has /28../32)
	wide := func(specs []string) []aclEntry {
		var out []aclEntry
		for _, sp := range specs {
			ip, n, err := net.ParseCIDR(sp)
			if err != nil {
				panic(err)
			}
			ones, _ := n.Mask.Size()
			for _, neg := range []bool{false, true} {
				out = append(out, aclEntry{ip: ip.String(), mask: ones, neg: neg, net: n})
			}
		}
		return out
	}
	w4 := wide([]string{"0.0.0.0/0", "128.0.0.0/1", "10.0.0.0/7", "10.0.0.0/8", "10.128.0.0/9", "10.0.0.0/15", "10.1.0.0/16", "10.1.128.0/17", "10.1.2.0/23", "10.1.2.0/24", "10.1.2.128/25", "10.1.2.2/31"})
	wa4 := []string{"0.0.0.0", "127.255.255.255", "128.0.0.0", "255.255.255.255", "9.255.255.255", "10.0.0.0", "10.255.255.255", "11.0.0.0", "11.255.255.255", "12.0.0.0",
		"10.127.255.255", "10.128.0.0", "10.0.255.255", "10.1.0.0", "10.1.255.255", "10.2.0.0", "10.1.127.255", "10.1.128.0", "10.1.1.255", "10.1.2.0", "10.1.2.127",
		"10.1.2.128", "10.1.2.255", "10.1.3.0", "10.1.3.255", "10.1.4.0", "10.1.2.1", "10.1.2.2", "10.1.2.3", "10.1.2.4", "192.168.0.1"}
	w6 := wide([]string{"::/0", "8000::/1", "2001:db8::/31", "2001:db8::/32", "2001:db8:8000::/33", "2001:db8:0:1::/63", "2001:db8:0:1::/64", "2001:db8::2/127"})
	wa6 := []string{"::", "7fff::1", "8000::", "ffff::1", "2001:db7:ffff::1", "2001:db8::", "2001:db8:7fff::1", "2001:db8:8000::", "2001:db8:ffff::1", "2001:db9::1", "2001:dba::1",
		"2001:db8:0:0:ffff::1", "2001:db8:0:1::", "2001:db8:0:1:ffff::1", "2001:db8:0:2::1", "2001:db8::1", "2001:db8::2", "2001:db8::3", "2001:db8::4", "::1"}
	maxW := 2
	if tier == "thorough" {
		maxW = 3
	}
	for _, fam := range []struct {
		name  string
		alpha []aclEntry
		addrs []string
	}{{"ipv4-wide", w4, wa4}, {"ipv6-wide", w6, wa6}} {
		var rec func(cur []aclEntry)
		rec = func(cur []aclEntry) {
			if len(cur) > 0 {
				emitACL(emit, cur, fam.addrs, fam.name)
			}
			if len(cur) == maxW {
				return
			}
			for _, e := range fam.alpha {
				rec(append(append([]aclEntry{}, cur...), e))
			}
		}
		rec(nil)
	}
	// mixed families in one ACL
	emitACL(emit, []aclEntry{v4Alphabet()[0], v6Alphabet()[1], v4Alphabet()[3]}, append(append([]string{}, a4[:4]...), a6[:3]...), "mixed")
}

// genPositions: a condition means the same wherever it stands. For every condition of a broad list (bare strings that
// are not set / set / set but empty, booleans, comparisons, regex matches) the same probe evaluates it as the first `if`,
// as `else if` after one and after two false conditions (all three keywords), under `!` twice, and as the condition of
// an if() expression; all answers must agree. No reference value is needed, so the empty-but-set string, whose
// truthiness the reference refuses, is included.
func genPositions(emit func(Case)) {
	conds := []string{"var.bt", "var.bf", "req.http.Hn", "req.http.Ha", "req.http.He", "var.se", "var.sa",
		`req.http.Ha == "a"`, `req.http.Hn == "a"`, `req.http.He == ""`, `var.se == ""`, "var.i7 < var.i1", "var.i1 <= var.i1", "var.f0 > var.fn",
		`req.http.Hab ~ "^a"`, `req.http.Hn ~ "^a"`, `req.http.He ~ "^$"`, `req.http.Ha !~ "b"`, "!var.bf", "!req.http.He", "var.bt && req.http.He", "var.bf || var.se"}
	for _, c := range conds {
		var p strings.Builder
		p.WriteString("sub probe {\n" + condPrelude + "  set req.http.He = \"\";\n  declare local var.x STRING;\n")
		fmt.Fprintf(&p, "  if (%s) { log \"p=T\"; } else { log \"p=F\"; }\n", c)
		fmt.Fprintf(&p, "  if (var.bf) { log \"x\"; } else if (%s) { log \"p=T\"; } else { log \"p=F\"; }\n", c)
		fmt.Fprintf(&p, "  if (var.bf) { log \"x\"; } elsif (req.http.Hn) { log \"x\"; } elseif (%s) { log \"p=T\"; } else { log \"p=F\"; }\n", c)
		fmt.Fprintf(&p, "  if (!(!(%s))) { log \"p=T\"; } else { log \"p=F\"; }\n", c)
		fmt.Fprintf(&p, "  set var.x = if(%s, \"T\", \"F\");\n  log \"p=\" var.x;\n", c)
		fmt.Fprintf(&p, "  if (var.bt && (%s)) { log \"p=T\"; } else { log \"p=F\"; }\n", c)
		p.WriteString("}\n")
		emit(Case{Kind: "position", Probe: p.String(), Want: []string{c}, Class: "position " + c})
	}
}

// genPinned: arithmetic whose result the documentation does not define (mixed INTEGER / FLOAT / RTIME operands with
// fractions, negative values) is compared with a committed snapshot of what the pinned tree computes
// (mc/ref/data/c07_pinned.tsv, regenerated with VERIF_C07_SNAPSHOT=<file>): this decides drift, not correctness.
func genPinned(emit func(Case)) {
	fl := []string{"0.5", "1.5", "-1.5", "2.0", "2.75", "-0.25", "1000.9"}
	in := []string{"0", "1", "3", "-3", "10", "7"}
	for _, a := range in {
		for _, op := range []string{"=", "+=", "-=", "*=", "/=", "%="} {
			for _, b := range fl {
				key := fmt.Sprintf("INTEGER %s %s FLOAT %s", a, op, b)
				pr := fmt.Sprintf("sub probe {\n  declare local var.t INTEGER;\n  declare local var.o FLOAT;\n  set var.t = %s;\n  set var.o = %s;\n  set var.t %s var.o;\n  log \"r=\" var.t;\n  log \"o=\" var.o;\n}\n", a, b, op)
				emit(Case{Kind: "pinned", Probe: pr, Pin: key, Class: "pinned INTEGER " + op + " FLOAT"})
			}
		}
	}
	for _, a := range []string{"0s", "1s", "1500ms", "-2s", "90s"} {
		for _, op := range []string{"+=", "-=", "*=", "/=", "%="} {
			for _, b := range append(append([]string{}, fl...), "2", "-3", "7") {
				typ := "FLOAT"
				if !strings.Contains(b, ".") {
					typ = "INTEGER"
				}
				key := fmt.Sprintf("RTIME %s %s %s %s", a, op, typ, b)
				pr := fmt.Sprintf("sub probe {\n  declare local var.t RTIME;\n  declare local var.o %s;\n  set var.t = %s;\n  set var.o = %s;\n  set var.t %s var.o;\n  log \"r=\" var.t;\n  log \"o=\" var.o;\n}\n", typ, a, b, op)
				emit(Case{Kind: "pinned", Probe: pr, Pin: key, Class: "pinned RTIME " + op + " " + typ})
			}
		}
	}
	// shifts and rotates where the reference refuses (negative left operand, counts outside 0..63): literal and variable count
	for _, a := range []string{"-8", "-1", "-9223372036854775807", "5", "9223372036854775807"} {
		for _, op := range []string{">>=", "<<=", "rol=", "ror="} {
			for _, b := range []string{"0", "1", "3", "63", "64", "65", "70", "-1", "-130"} {
				key := fmt.Sprintf("INTEGER %s %s INTEGER %s", a, op, b)
				pr := fmt.Sprintf("sub probe {\n  declare local var.t INTEGER;\n  declare local var.u INTEGER;\n  declare local var.o INTEGER;\n  set var.t = %s;\n  set var.u = %s;\n  set var.o = %s;\n  set var.t %s var.o;\n  set var.u %s %s;\n  log \"r=\" var.t;\n  log \"l=\" var.u;\n  log \"o=\" var.o;\n  if (var.t < 0) { log \"neg\"; } else { log \"nonneg\"; }\n}\n", a, a, b, op, op, b)
				emit(Case{Kind: "pinned", Probe: pr, Pin: key, Class: "pinned INTEGER " + op + " INTEGER"})
			}
		}
	}
}

var (
	pinnedOnce sync.Once
	pinned     map[string]string
)

func pinnedSnapshot() map[string]string {
	pinnedOnce.Do(func() {
		pinned = map[string]string{}
		b, err := os.ReadFile(filepath.Join(os.Getenv("VERIF_DIR"), "mc/ref/data/c07_pinned.tsv"))
		if err != nil {
			b, _ = os.ReadFile("/verif/mc/ref/data/c07_pinned.tsv")
		}
		for _, l := range strings.Split(string(b), "\n") {
			if kv := strings.SplitN(l, "\t", 2); len(kv) == 2 {
				pinned[kv[0]] = kv[1]
			}
		}
	})
	return pinned
}

func gen07(tier string, emit func(Case)) {
	genPositions(emit)
	genPinned(emit)
	genAssign(emit)
	genConds(emit)
	genBranches(tier, emit)
	genACL(tier, emit)
}

func run(c Case) engine.Result {
	var logs []string
	var err error
	var pan string
	func() {
		defer func() {
			if r := recover(); r != nil {
				pan = fmt.Sprint(r)
			}
		}()
		logs, err = sim.RunProbeIn(c.Decls+"sub vcl_recv { }\n", c.Probe, "recv")
	}()
	if pan != "" {
		// a crash is C08's; here the case is simply not comparable
		return engine.Result{Skipped: true}
	}
	if err != nil && c.Kind == "position" {
		return engine.Result{Skipped: true} // the condition is not accepted in one of the positions: nothing to compare
	}
	if err != nil && c.Kind == "pinned" {
		logs, err = append(logs, "ERR "+firstLine(err.Error())), nil // a refusal is part of the recorded behaviour
	}
	if err != nil {
		// the interpreter refuses a program of the core language that the reference defines
		return engine.Result{NonTrivial: true, Outcome: "refused", Findings: []engine.Finding{{
			Class: "refused|" + c.Class, What: fmt.Sprintf("the simulator refuses a program the reference defines: %v", firstLine(err.Error())), Detail: c.Probe}}}
	}
	res := engine.Result{NonTrivial: true, Outcome: "agree"}
	if c.Kind == "position" {
		var vals []string
		for _, l := range logs {
			if strings.HasPrefix(l, "p=") {
				vals = append(vals, l)
			}
		}
		if len(vals) != 6 {
			return engine.Result{Skipped: true}
		}
		for _, v := range vals[1:] {
			if v != vals[0] {
				res.Outcome = "position-dependent"
				res.Findings = []engine.Finding{{Class: "position|" + c.Want[0], What: fmt.Sprintf("the condition `%s` is answered %v as [first if, else if, elseif after two, !!, if() expression, && true]: its value depends on where it stands", c.Want[0], vals), Detail: c.Probe}}
				break
			}
		}
		return res
	}
	if c.Kind == "pinned" {
		got := strings.Join(logs, " ")
		if f := os.Getenv("VERIF_C07_SNAPSHOT"); f != "" {
			fh, _ := os.OpenFile(f, os.O_APPEND|os.O_CREATE|os.O_WRONLY, 0o644)
			fmt.Fprintf(fh, "%s\t%s\n", c.Pin, got)
			fh.Close()
			return res
		}
		want, ok := pinnedSnapshot()[c.Pin]
		if !ok {
			return engine.Result{Skipped: true}
		}
		if got != want {
			res.Outcome = "drift"
			res.Findings = []engine.Finding{{Class: "drift|" + c.Class, What: fmt.Sprintf("`%s` now gives %q, the pinned tree gave %q (mixed-type arithmetic the documentation does not define: drift from the recorded behaviour)", c.Pin, got, want), Detail: c.Probe}}
		}
		return res
	}
	if c.Kind == "dual" {
		if len(logs) != 2 {
			return engine.Result{Skipped: true}
		}
		a, b := strings.HasSuffix(logs[0], "=T"), strings.HasSuffix(logs[1], "=T")
		ok := a == b
		if c.Want[0] == "DUAL-NEGATED" {
			ok = a != b
		}
		if !ok {
			res.Outcome = "duality-broken"
			res.Findings = []engine.Finding{{Class: "duality|" + c.Class, What: fmt.Sprintf("duality law broken: %v for the two forms in %s", logs, c.Want[0]), Detail: c.Probe}}
		}
		return res
	}
	if len(logs) != len(c.Want) {
		res.Outcome = "disagree"
		res.Findings = []engine.Finding{{Class: "value|" + c.Class, What: fmt.Sprintf("simulator logs %q, reference predicts %q", logs, c.Want), Detail: c.Decls + c.Probe}}
		return res
	}
	for i := range logs {
		if c.Want[i] != "" && logs[i] != c.Want[i] {
			res.Outcome = "disagree"
			res.Findings = []engine.Finding{{Class: "value|" + c.Class, What: fmt.Sprintf("simulator logs %q, reference predicts %q (first difference at line %d: got %q want %q)", logs, c.Want, i, logs[i], c.Want[i]), Detail: c.Decls + c.Probe}}
			return res
		}
	}
	return res
}

func firstLine(s string) string {
	if i := strings.Index(s, "\n"); i > 0 {
		return s[:i]
	}
	return s
}

func init() {
	engine.Register(engine.Spec[Case]{
		ID:    "C07",
		Level: "exploration",
		Rule: "programs of the core language enumerated completely over stated alphabets and compared with an independent reference evaluator (mc/checks/c07, written from the Fastly documentation): (1) every assignment operator x operand pair from 10 INTEGER, 5 FLOAT, 4 RTIME and 2 BOOL values x {literal, variable} where the reference defines the result (no overflow, divisor != 0, shift/rotate count 0..63), declaration defaults and STRING renderings; (2) every comparison of 21 typed atoms (set/not-set/empty strings, headers, literals) with ==, !=, <, >, <=, >= where defined, regex matches over 8 patterns in the RE2/PCRE common subset, truthiness, prefix !, and all &&/||/! combinations over a reduced leaf set; each comparison also in its dual form (a<b vs b>a, == vs !=, ~ vs !~) checked on the implementation alone; (3) every truth assignment of if / else-if / else chains up to 3 conditions, every switch over 5 controls x arrangements of up to 3 (quick) / 4 (thorough) cases (== and ~ tests) x fallthrough flags x default position, not-set propagation; (4) every ACL of up to 3 (quick) / 4 (thorough) entries from the 62 plain/negated prefixes of a 4-bit IPv4 sub-space (hosts without mask) x 18 addresses, and the same on a 3-bit IPv6 sub-space, plus every ACL of up to 2 (quick) / 3 (thorough) entries from 24 IPv4 and 16 IPv6 plain/negated prefixes with masks /0, /1 and at and next to the byte boundaries x 31 / 20 addresses inside, on the boundary of and outside each, against a longest-prefix reference; (5) 22 conditions (incl. the empty-but-set string) each evaluated in 6 positions (if, else if, elseif after two, !!, if() expression, && true) that must agree; (6) 432 mixed-type arithmetic cells (INTEGER op= FLOAT, RTIME op= FLOAT/INTEGER) compared with a committed snapshot of the pinned tree (drift only). non-trivial = every case; distinct = distinct program Round 3: += as the first write to a never-assigned STRING local and header. Round 4: 180 INTEGER shift / rotate cells the reference refuses (negative left operand, counts 64, 65, 70, -1, -130; literal and variable count) compared with the pinned snapshot (drift only).",
		Gen:  gen07,
		Key:  func(c Case) string { return c.Decls + "\x00" + c.Probe },
		Run:  run,
		Init: func(string) { sim.InstallStub() },
		Assumptions: []string{
			"the reference refuses (does not compare) overflowing arithmetic, non-finite floats, shift/rotate counts outside 0..63, >>= of negative operands, mixed RTIME/number comparisons, the truthiness of the empty-but-set string, regexes outside the literal/anchor/class subset, and ACLs where two entries of the same prefix length and opposite negation contain the address",
			"observables are the log lines of the probe subroutine run through ProcessTestSubroutine",
		},
	})
}
