// Package c20: VCL generated from remote / Terraform resources is valid and faithful.
package c20

import (
	"bytes"
	"encoding/json"
	"fmt"
	"io"
	"net/http"
	"os"
	"runtime/debug"
	"sort"
	"strconv"
	"strings"
	"time"

	"github.com/ysugimoto/falco/v2/ast"
	"github.com/ysugimoto/falco/v2/lexer"
	"github.com/ysugimoto/falco/v2/parser"
	"github.com/ysugimoto/falco/v2/snippet"
	"github.com/ysugimoto/falco/v2/snippet/remote"
	"github.com/ysugimoto/falco/v2/snippet/terraform"

	"verif/mc/engine"
)

// Resource set (the thing the generated VCL has to be faithful to).
type DictItem struct{ Key, Value string }
type Dict struct {
	Name  string
	Items []DictItem
}
type AclEntry struct {
	IP      string
	Negated bool
	Subnet  int // -1: none
	Comment string
}
type Acl struct {
	Name    string
	Entries []AclEntry
}
type Backend struct{ Name, Address string }
type Director struct {
	Name     string
	Type     int
	Backends []string
	Retries  int // -1: absent (Terraform)
	Quorum   int
}
type Response struct {
	Name, Content, ContentType string
	Status                     int
}

// Case is one resource set and the path it is fed through.
type Case struct {
	Path      string     `json:"path"` // api | terraform
	// TFLayout: where the resources sit in the Terraform plan: "" = all in the root module; items-in-child = dictionary items /
	// ACL entries in a child module that declares no service; service-in-child = the service in a child module, items in the root;
	// all-in-child; items-in-grandchild
	TFLayout string `json:"tf_layout,omitempty"`
	Dicts     []Dict     `json:"dicts"`
	Acls      []Acl      `json:"acls"`
	Backends  []Backend  `json:"backends"`
	Directors []Director `json:"directors"`
	Responses []Response `json:"responses"`
	Label     string     `json:"label"` // class-key part: which field / structure deviates
	// Terraform plans with two services ("service" with the resources above, "service2" with Second's): Pick says which one is
	// generated (the way `falco terraform` does it: SetName on the one fetcher), Prior whether the other one was generated first
	Second *Case `json:"second,omitempty"`
	Pick   int   `json:"pick,omitempty"`
	Prior  bool  `json:"prior,omitempty"`
}

// ---------------------------------------------------------------------------
// fake Fastly API (remote path): the real remote.FastlyApiFetcher and its client, with http.DefaultClient answered from the case

type fakeAPI struct{ c Case }

func (f *fakeAPI) RoundTrip(r *http.Request) (*http.Response, error) {
	path := r.URL.Path
	var body any = []any{}
	idOf := func(prefix, rest string) int {
		n, _ := strconv.Atoi(strings.TrimPrefix(strings.SplitN(rest, "/", 2)[0], prefix))
		return n
	}
	switch {
	case strings.HasSuffix(path, "/version/active"):
		body = map[string]any{"number": 1}
	case strings.HasSuffix(path, "/version/1/dictionary"):
		l := []any{}
		for i, d := range f.c.Dicts {
			l = append(l, map[string]any{"id": fmt.Sprintf("d%d", i), "name": d.Name, "write_only": false})
		}
		body = l
	case strings.Contains(path, "/dictionary/d") && strings.HasSuffix(path, "/items"):
		i := idOf("d", path[strings.Index(path, "/dictionary/d")+len("/dictionary/"):])
		l := []any{}
		for _, it := range f.c.Dicts[i].Items {
			l = append(l, map[string]any{"item_key": it.Key, "item_value": it.Value})
		}
		body = l
	case strings.HasSuffix(path, "/version/1/acl"):
		l := []any{}
		for i, a := range f.c.Acls {
			l = append(l, map[string]any{"id": fmt.Sprintf("a%d", i), "name": a.Name})
		}
		body = l
	case strings.Contains(path, "/acl/a") && strings.HasSuffix(path, "/entries"):
		i := idOf("a", path[strings.Index(path, "/acl/a")+len("/acl/"):])
		l := []any{}
		for _, e := range f.c.Acls[i].Entries {
			m := map[string]any{"ip": e.IP, "negated": "0", "subnet": nil, "comment": e.Comment}
			if e.Negated {
				m["negated"] = "1"
			}
			if e.Subnet >= 0 {
				m["subnet"] = e.Subnet
			}
			l = append(l, m)
		}
		body = l
	case strings.HasSuffix(path, "/version/1/backend"):
		l := []any{}
		for _, b := range f.c.Backends {
			l = append(l, map[string]any{"name": b.Name, "shield": nil, "address": b.Address})
		}
		body = l
	case strings.HasSuffix(path, "/version/1/director"):
		l := []any{}
		for _, d := range f.c.Directors {
			r := d.Retries
			if r < 0 {
				r = 0
			}
			bs := d.Backends
			if bs == nil {
				bs = []string{}
			}
			l = append(l, map[string]any{"name": d.Name, "type": d.Type, "backends": bs, "retries": r, "quorum": d.Quorum})
		}
		body = l
	case strings.HasSuffix(path, "/version/1/response_object"):
		l := []any{}
		for _, ro := range f.c.Responses {
			l = append(l, map[string]any{"name": ro.Name, "content": ro.Content, "content_type": ro.ContentType, "status": strconv.Itoa(ro.Status), "response": "OK", "cache_condition": "", "request_condition": ""})
		}
		body = l
	}
	b, _ := json.Marshal(body)
	return &http.Response{StatusCode: 200, Status: "200 OK", Proto: "HTTP/1.1", ProtoMajor: 1, ProtoMinor: 1, Header: http.Header{"Content-Type": []string{"application/json"}}, Body: io.NopCloser(bytes.NewReader(b)), Request: r}, nil
}

// ---------------------------------------------------------------------------
// stub fetcher (Fastly API path)

type stub struct{ c Case }

func (s *stub) LookupCache(bool) *snippet.Snippets { return nil }
func (s *stub) WriteCache(*snippet.Snippets)      {}
func (s *stub) Backends() ([]*snippet.Backend, error) {
	var out []*snippet.Backend
	for _, b := range s.c.Backends {
		addr := b.Address
		out = append(out, &snippet.Backend{Name: b.Name, Address: &addr})
	}
	return out, nil
}
func (s *stub) Directors() ([]*snippet.Director, error) {
	var out []*snippet.Director
	for _, d := range s.c.Directors {
		r := d.Retries
		if r < 0 {
			r = 0
		}
		out = append(out, &snippet.Director{Type: d.Type, Name: d.Name, Backends: d.Backends, Retries: r, Quorum: d.Quorum})
	}
	return out, nil
}
func (s *stub) Dictionaries() ([]*snippet.Dictionary, error) {
	var out []*snippet.Dictionary
	for _, d := range s.c.Dicts {
		var items []*snippet.DictionaryItem
		for _, it := range d.Items {
			items = append(items, &snippet.DictionaryItem{Key: it.Key, Value: it.Value})
		}
		out = append(out, &snippet.Dictionary{Name: d.Name, Items: items})
	}
	return out, nil
}
func (s *stub) Acls() ([]*snippet.Acl, error) {
	var out []*snippet.Acl
	for _, a := range s.c.Acls {
		var es []*snippet.AclEntry
		for _, e := range a.Entries {
			ae := &snippet.AclEntry{Ip: e.IP, Negated: e.Negated, Comment: e.Comment}
			if e.Subnet >= 0 {
				v := int64(e.Subnet)
				ae.Subnet = &v
			}
			es = append(es, ae)
		}
		out = append(out, &snippet.Acl{Name: a.Name, Entries: es})
	}
	return out, nil
}
func (s *stub) Conditions() ([]*snippet.Condition, error) { return nil, nil }
func (s *stub) Snippets() ([]*snippet.VCLSnippet, error)  { return nil, nil }
func (s *stub) Headers() ([]*snippet.Header, error)       { return nil, nil }
func (s *stub) ResponseObjects() ([]*snippet.ResponseObject, error) {
	var out []*snippet.ResponseObject
	for _, r := range s.c.Responses {
		c := r.Content
		out = append(out, &snippet.ResponseObject{Name: r.Name, Content: &c, ContentType: r.ContentType, Status: int64(r.Status), Response: "OK"})
	}
	return out, nil
}
func (s *stub) RequestSetting() (*snippet.RequestSetting, error) { return nil, nil }
func (s *stub) LoggingEndpoints() ([]string, error)              { return nil, nil }

// ---------------------------------------------------------------------------
// Terraform plan JSON

func planJSON(c Case) []byte {
	resources := serviceResources(c, "svc1", "service")
	service, extra := resources[:1], resources[1:]
	if c.Second != nil {
		resources = append(resources, serviceResources(*c.Second, "svc2", "service2")...)
	}
	mod := func(addr string, res []any, children ...any) map[string]any {
		m := map[string]any{"address": addr, "resources": res}
		if len(children) > 0 {
			m["child_modules"] = children
		}
		return m
	}
	root := map[string]any{"resources": resources}
	switch c.TFLayout {
	case "items-in-child":
		root = map[string]any{"resources": service, "child_modules": []any{mod("module.edge_data", extra)}}
	case "service-in-child":
		root = map[string]any{"resources": extra, "child_modules": []any{mod("module.service", service)}}
	case "all-in-child":
		root = map[string]any{"resources": []any{}, "child_modules": []any{mod("module.all", resources)}}
	case "items-in-grandchild":
		root = map[string]any{"resources": service, "child_modules": []any{mod("module.outer", []any{}, mod("module.outer.module.inner", extra))}}
	}
	doc := map[string]any{"planned_values": map[string]any{"root_module": root}}
	b, _ := json.Marshal(doc)
	return b
}

// serviceResources: the fastly_service_vcl resource of one service followed by its item / entry resources
func serviceResources(c Case, svcID, svcName string) []any {
	svc := map[string]any{"id": svcID, "name": svcName}
	var acls, dicts, backends, directors, resps []any
	var extra []any
	for _, a := range c.Acls {
		acls = append(acls, map[string]any{"name": a.Name, "acl_id": "id-" + a.Name})
		var es []any
		for _, e := range a.Entries {
			sub := ""
			if e.Subnet >= 0 {
				sub = strconv.Itoa(e.Subnet)
			}
			es = append(es, map[string]any{"ip": e.IP, "negated": e.Negated, "subnet": sub, "comment": e.Comment})
		}
		extra = append(extra, map[string]any{"provider_name": "registry.terraform.io/fastly/fastly", "type": "fastly_service_acl_entries", "index": a.Name,
			"values": map[string]any{"service_id": svcID, "entry": es}})
	}
	for _, d := range c.Dicts {
		dicts = append(dicts, map[string]any{"name": d.Name, "dictionary_id": "id-" + d.Name})
		items := map[string]string{}
		for _, it := range d.Items {
			items[it.Key] = it.Value
		}
		extra = append(extra, map[string]any{"provider_name": "registry.terraform.io/fastly/fastly", "type": "fastly_service_dictionary_items", "index": d.Name,
			"values": map[string]any{"service_id": svcID, "items": items}})
	}
	for _, b := range c.Backends {
		backends = append(backends, map[string]any{"name": b.Name, "address": b.Address})
	}
	for _, d := range c.Directors {
		m := map[string]any{"name": d.Name, "type": d.Type, "backends": d.Backends, "quorum": d.Quorum}
		if d.Retries >= 0 {
			m["retries"] = d.Retries
		}
		directors = append(directors, m)
	}
	for _, r := range c.Responses {
		resps = append(resps, map[string]any{"name": r.Name, "content": r.Content, "content_type": r.ContentType, "status": r.Status, "response": "OK"})
	}
	svc["acl"], svc["dictionary"], svc["backend"], svc["director"], svc["response_object"] = acls, dicts, backends, directors, resps
	svc["vcl"] = []any{map[string]any{"name": "main", "main": true, "content": "sub vcl_recv { }"}}
	return append([]any{map[string]any{"provider_name": "registry.terraform.io/fastly/fastly", "type": "fastly_service_vcl", "values": svc}}, extra...)
}

// ---------------------------------------------------------------------------
// generation

var alpha = []string{"a", "\"", "%", "2", "0", "{", "}", "\n", "#", "\\", " ", ";"}

func strs(maxLen int) []string {
	out := []string{""}
	var rec func(p string, d int)
	rec = func(p string, d int) {
		if d == maxLen {
			return
		}
		for _, a := range alpha {
			out = append(out, p+a)
			rec(p+a, d+1)
		}
	}
	rec("", 0)
	return append(out, "%20", "%u0041", "a%2", "\"}", "{\"", "100%", "a\"b", "a b", "é",
		// comment and statement delimiters of the generated language
		"*/", "/*", "a */ b", "x */ \"0.0.0.0\"/0; /* y", "//", "/* c */", "a // b", "*/ }", "\r", "a\rb", "\t")
}

func base() Case {
	return Case{
		Dicts:     []Dict{{"tbl", []DictItem{{"k1", "v1"}, {"k2", "v2"}}}},
		Acls:      []Acl{{"acl1", []AclEntry{{"192.0.2.1", false, -1, "c"}, {"10.0.0.0", false, 8, ""}}}},
		Backends:  []Backend{{"origin", "example.com"}, {"second", "example.org"}},
		Directors: []Director{{"dir", 1, []string{"origin", "second"}, 3, 75}},
		Responses: []Response{{"resp", "body", "text/plain", 200}},
	}
}

type field struct {
	name string
	set  func(c *Case, v string)
}

var fields = []field{
	{"dict-key", func(c *Case, v string) { c.Dicts[0].Items[0].Key = v }},
	{"dict-value", func(c *Case, v string) { c.Dicts[0].Items[0].Value = v }},
	{"acl-comment", func(c *Case, v string) { c.Acls[0].Entries[0].Comment = v }},
	{"backend-address", func(c *Case, v string) { c.Backends[0].Address = v }},
	{"response-content", func(c *Case, v string) { c.Responses[0].Content = v }},
	{"response-content-type", func(c *Case, v string) { c.Responses[0].ContentType = v }},
}

func clone(c Case) Case {
	b, _ := json.Marshal(c)
	var out Case
	json.Unmarshal(b, &out)
	return out
}

func charClass(v string) string {
	var cs []string
	seen := map[string]bool{}
	add := func(s string) {
		if !seen[s] {
			seen[s] = true
			cs = append(cs, s)
		}
	}
	for _, r := range v {
		switch r {
		case '"':
			add("quote")
		case '%':
			add("percent")
		case '\n':
			add("newline")
		case '{', '}':
			add("brace")
		case '#':
			add("hash")
		case '\\':
			add("backslash")
		case ';':
			add("semicolon")
		case ' ':
			add("space")
		case '*', '/':
			add("comment-delimiter")
		case '\r', '\t':
			add("control")
		default:
			if r > 127 {
				add("non-ascii")
			}
		}
	}
	if len(cs) == 0 {
		if v == "" {
			return "empty"
		}
		return "plain"
	}
	sort.Strings(cs)
	return strings.Join(cs, "+")
}

func gen20(tier string, emit func(Case)) {
	maxLen := 2
	if tier == "thorough" {
		maxLen = 3
	}
	all := strs(maxLen)
	one := strs(1)
	emitBoth := func(c Case) {
		for _, p := range []string{"api", "terraform", "remote"} {
			x := clone(c)
			x.Path = p
			emit(x)
		}
	}
	emitBoth(withLabel(base(), "base"))
	for _, f := range fields {
		for _, v := range all {
			c := base()
			f.set(&c, v)
			emitBoth(withLabel(c, f.name+" "+charClass(v)))
		}
	}
	pair := one
	if tier == "thorough" {
		pair = strs(2)
	}
	for i, f := range fields {
		for _, g := range fields[i+1:] {
			for _, v := range pair {
				for _, w := range pair {
					c := base()
					f.set(&c, v)
					g.set(&c, w)
					emitBoth(withLabel(c, f.name+"+"+g.name))
				}
			}
		}
	}
	// names of backends and directors: every 1-2 character insertion of non-identifier characters
	ins := []string{"-", ".", " ", "é", "--", "-.", ". "}
	for pos := 0; pos <= len("origin"); pos++ {
		for _, s := range ins {
			name := "origin"[:pos] + s + "origin"[pos:]
			c := base()
			c.Backends[0].Name = name
			c.Directors[0].Backends[0] = name
			emitBoth(withLabel(c, "backend-name "+charClass(s)+nonIdent(s)))
			d := base()
			d.Directors[0].Name = "dir"[:min(pos, 3)] + s + "dir"[min(pos, 3):]
			emitBoth(withLabel(d, "director-name "+charClass(s)+nonIdent(s)))
		}
	}
	// structure
	for _, n := range []int{0, 1, 3} {
		c := base()
		c.Dicts[0].Items = nil
		c.Acls[0].Entries = nil
		for i := 0; i < n; i++ {
			c.Dicts[0].Items = append(c.Dicts[0].Items, DictItem{fmt.Sprintf("key%d", i), fmt.Sprintf("value %d", i)})
		}
		for i := 0; i < n; i++ {
			c.Acls[0].Entries = append(c.Acls[0].Entries, AclEntry{fmt.Sprintf("10.0.%d.0", i), i%2 == 1, 24, ""})
		}
		emitBoth(withLabel(c, fmt.Sprintf("structure items=%d", n)))
	}
	for _, ip := range []string{"192.0.2.1", "2001:db8::1", "::1"} {
		for _, neg := range []bool{false, true} {
			for _, sub := range []int{-1, 0, 8, 32, 64, 128} {
				c := base()
				c.Acls[0].Entries = []AclEntry{{ip, neg, sub, ""}, {"10.0.0.1", false, -1, "x"}}
				emitBoth(withLabel(c, "structure acl-entry"))
			}
		}
	}
	for nb := 0; nb <= 2; nb++ {
		for _, typ := range []int{1, 3, 4} {
			for _, retries := range []int{-1, 0, 5} {
				c := base()
				c.Directors[0].Backends = []string{"origin", "second"}[:nb]
				c.Directors[0].Type = typ
				c.Directors[0].Retries = retries
				emitBoth(withLabel(c, fmt.Sprintf("structure director members=%d retries=%s", nb, map[bool]string{true: "absent", false: "set"}[retries < 0])))
			}
		}
	}
	// Terraform module layouts (terraform path only)
	for _, lay := range []string{"items-in-child", "service-in-child", "all-in-child", "items-in-grandchild"} {
		for _, n := range []int{1, 3} {
			c := base()
			c.Dicts[0].Items, c.Acls[0].Entries = nil, nil
			for i := 0; i < n; i++ {
				c.Dicts[0].Items = append(c.Dicts[0].Items, DictItem{fmt.Sprintf("key%d", i), fmt.Sprintf("value %d", i)})
				c.Acls[0].Entries = append(c.Acls[0].Entries, AclEntry{fmt.Sprintf("10.0.%d.0", i), i%2 == 1, 24, ""})
			}
			c.TFLayout, c.Path, c.Label = lay, "terraform", "structure module-layout "+lay
			emit(c)
		}
	}
	// Terraform plans with two services: each is generated from its own resources, whichever is generated first
	{
		second := Case{
			Dicts:     []Dict{{"tbl", []DictItem{{"k1", "other"}, {"k3", "v3"}}}, {"flags", []DictItem{{"on", "1"}}}},
			Acls:      []Acl{{"acl1", []AclEntry{{"198.51.100.0", true, 24, "z"}}}},
			Backends:  []Backend{{"origin", "example.net"}, {"third", "example.edu"}},
			Directors: []Director{{"dir", 3, []string{"third"}, -1, 50}},
			Responses: []Response{{"resp", "other body", "text/html", 503}},
		}
		empty := Case{}
		for si, sec := range []Case{second, empty} {
			for pick := 0; pick <= 1; pick++ {
				for _, prior := range []bool{false, true} {
					for _, lay := range []string{"", "all-in-child"} {
						c := base()
						s2 := clone(sec)
						c.Second, c.Pick, c.Prior, c.TFLayout, c.Path = &s2, pick, prior, lay, "terraform"
						c.Label = fmt.Sprintf("structure two-services second:%d pick:%d prior:%v", si, pick, prior)
						emit(c)
					}
				}
			}
		}
	}
	// resource names that differ only in the length of a run of non-identifier characters must stay distinct
	for _, pr := range [][2]string{{"api-v1", "api--v1"}, {"a.b", "a..b"}, {"x y", "x  y"}, {"o-", "o--"}, {"Origin - EU", "Origin-EU"}} {
		c := base()
		c.Backends = []Backend{{pr[0], "one.example.com"}, {pr[1], "two.example.com"}}
		c.Directors[0].Backends = []string{pr[1], pr[0]}
		emitBoth(withLabel(c, "structure names-differing-in-run-length"))
	}
	c := base()
	c.Dicts = append(c.Dicts, Dict{"second_table", []DictItem{{"a", "b"}}})
	c.Acls = append(c.Acls, Acl{"acl2", nil})
	emitBoth(withLabel(c, "structure two-of-each"))
	e := base()
	e.Dicts, e.Acls, e.Backends, e.Directors, e.Responses = nil, nil, nil, nil, nil
	emitBoth(withLabel(e, "structure nothing"))
}

func nonIdent(s string) string { return "" }

func withLabel(c Case, l string) Case { c.Label = l; return c }

// ---------------------------------------------------------------------------
// oracle

func fetch(c Case) (sn *snippet.Snippets, err error, pan string) {
	defer func() {
		if r := recover(); r != nil {
			pan = fmt.Sprint(r) + "\n" + string(debug.Stack())
		}
	}()
	// snippet.Fetch prints progress to stdout: silence it
	old := os.Stdout
	devnull, _ := os.OpenFile(os.DevNull, os.O_WRONLY, 0)
	os.Stdout = devnull
	defer func() { os.Stdout = old; devnull.Close() }()
	var f snippet.Fetcher
	if c.Path == "terraform" {
		services, perr := terraform.ParseStdin(bytes.NewReader(planJSON(c)))
		if perr != nil {
			return nil, perr, ""
		}
		tf := terraform.NewTerraformFetcher(services)
		f = tf
		if c.Second != nil {
			names := []string{"service", "service2"}
			if c.Prior {
				tf.SetName(names[1-c.Pick])
				if _, err := snippet.Fetch(f); err != nil {
					return nil, err, ""
				}
			}
			tf.SetName(names[c.Pick])
		}
	} else if c.Path == "remote" {
		oldT := http.DefaultClient.Transport
		http.DefaultClient.Transport = &fakeAPI{c}
		defer func() { http.DefaultClient.Transport = oldT }()
		f = remote.NewFastlyApiFetcher("svc", "key", 20*time.Second)
	} else {
		f = &stub{c}
	}
	sn, err = snippet.Fetch(f)
	return sn, err, ""
}

var _ = io.Discard

func parseDecls(src string) ([]ast.Statement, error) {
	vcl, err := parser.New(lexer.NewFromString(src)).ParseVCL()
	if err != nil {
		return nil, err
	}
	return vcl.Statements, nil
}

func run(c Case) engine.Result {
	res := engine.Result{NonTrivial: true, Outcome: "faithful"}
	fail := func(kind, what string, detail any) {
		cls := kind + "|" + c.Path + "|" + c.Label
		for _, f := range res.Findings {
			if f.Class == cls {
				return
			}
		}
		res.Findings = append(res.Findings, engine.Finding{Class: cls, What: fmt.Sprintf("%s path, %s: %s", c.Path, c.Label, what), Detail: detail})
		res.Outcome = kind
	}
	sn, err, pan := fetch(c)
	if c.Second != nil && c.Pick == 1 {
		// the generated VCL has to be faithful to the second service's resources
		lbl, path := c.Label, c.Path
		c = clone(*c.Second)
		c.Label, c.Path = lbl, path
	}
	if pan != "" {
		fail("panic@"+engine.PanicSite(pan), "generating VCL panics: "+strings.SplitN(pan, "\n", 2)[0], c)
		return res
	}
	if err != nil {
		fail("refused", fmt.Sprintf("resources are refused: %v", err), c)
		return res
	}
	items, err := func() (it []snippet.Item, e error) {
		defer func() {
			if r := recover(); r != nil {
				e = fmt.Errorf("panic: %v", r)
			}
		}()
		return sn.EmbedSnippets(false)
	}()
	if err != nil {
		fail("embed-failed", fmt.Sprintf("EmbedSnippets fails: %v", err), c)
		return res
	}
	tables := map[string]*ast.TableDeclaration{}
	acls := map[string]*ast.AclDeclaration{}
	backends := map[string]*ast.BackendDeclaration{}
	directors := map[string]*ast.DirectorDeclaration{}
	var order []string
	for _, it := range items {
		st, perr := parseDecls(it.Data)
		if perr != nil {
			fail("unparseable|"+itemKind(it.Name), fmt.Sprintf("generated item %s does not parse: %v", it.Name, perr), map[string]string{"vcl": it.Data})
			continue
		}
		for _, s := range st {
			switch t := s.(type) {
			case *ast.TableDeclaration:
				tables[t.Name.Value] = t
			case *ast.AclDeclaration:
				acls[t.Name.Value] = t
			case *ast.BackendDeclaration:
				backends[t.Name.Value] = t
				order = append(order, t.Name.Value)
			case *ast.DirectorDeclaration:
				directors[t.Name.Value] = t
			}
		}
	}
	// scoped snippets (response objects) must parse as statements and carry the content
	for scope, list := range sn.ScopedSnippets {
		for _, it := range list {
			stmts, perr := parser.New(lexer.NewFromString(it.Data)).ParseSnippetVCL()
			if perr != nil {
				fail("unparseable|"+itemKind(it.Name), fmt.Sprintf("generated %s snippet %s does not parse: %v", scope, it.Name, perr), map[string]string{"vcl": it.Data})
				continue
			}
			if strings.HasPrefix(it.Name, "Remote.ResponseObject:") {
				name := strings.TrimPrefix(it.Name, "Remote.ResponseObject:")
				for _, r := range c.Responses {
					if r.Name != name {
						continue
					}
					// the property asks faithfulness of dictionaries, ACLs, backends and directors;
					// a response object only has to produce VCL that parses (checked above)
					_, _, _ = responseOf(stmts)
				}
			}
		}
	}
	if len(res.Findings) > 0 {
		return res // faithfulness of unparseable items cannot be judged
	}
	for _, d := range c.Dicts {
		t := tables[d.Name]
		if t == nil {
			fail("missing|dictionary", fmt.Sprintf("dictionary %q is not declared", d.Name), nil)
			continue
		}
		want := append([]DictItem{}, d.Items...)
		if c.Path == "terraform" {
			// a Terraform items map has no order and unique keys
			m := map[string]string{}
			for _, it := range want {
				m[it.Key] = it.Value
			}
			want = want[:0]
			for k, v := range m {
				want = append(want, DictItem{k, v})
			}
			sort.Slice(want, func(i, j int) bool { return want[i].Key < want[j].Key })
		}
		var got []DictItem
		for _, p := range t.Properties {
			v := ""
			if s, ok := p.Value.(*ast.String); ok {
				v = s.Value
			} else {
				v = "<" + fmt.Sprintf("%T", p.Value) + ">"
			}
			got = append(got, DictItem{p.Key.Value, v})
		}
		if fmt.Sprint(want) != fmt.Sprint(got) {
			fail("unfaithful|dictionary", fmt.Sprintf("dictionary %s: resource items %q, declared items %q", d.Name, want, got), nil)
		}
	}
	for _, a := range c.Acls {
		t := acls[a.Name]
		if t == nil {
			fail("missing|acl", fmt.Sprintf("acl %q is not declared", a.Name), nil)
			continue
		}
		var want, got []string
		for _, e := range a.Entries {
			want = append(want, fmt.Sprintf("%v %s/%d", e.Negated, e.IP, e.Subnet))
		}
		for _, e := range t.CIDRs {
			m := -1
			if e.Mask != nil {
				m = int(e.Mask.Value)
			}
			got = append(got, fmt.Sprintf("%v %s/%d", e.Inverse != nil && e.Inverse.Value, e.IP.Value, m))
		}
		if strings.Join(want, ";") != strings.Join(got, ";") {
			fail("unfaithful|acl", fmt.Sprintf("acl %s: resource entries %q, declared entries %q", a.Name, want, got), nil)
		}
	}
	// backends: in resource order; address = .host
	if len(order) != len(c.Backends) {
		fail("unfaithful|backend-count", fmt.Sprintf("%d backends in the resources, %d declared (%v)", len(c.Backends), len(order), order), nil)
		return res
	}
	declaredFor := map[string]string{}
	seenDecl := map[string]string{}
	for i, b := range c.Backends {
		if prev, dup := seenDecl[order[i]]; dup && prev != b.Name {
			fail("unfaithful|backend-names-collide", fmt.Sprintf("backends %q and %q are both declared as %s", prev, b.Name, order[i]), nil)
		}
		seenDecl[order[i]] = b.Name
		decl := backends[order[i]]
		declaredFor[b.Name] = order[i]
		host := ""
		for _, p := range decl.Properties {
			if p.Key.Value == "host" {
				if s, ok := p.Value.(*ast.String); ok {
					host = s.Value
				}
			}
		}
		if host != b.Address {
			fail("unfaithful|backend-address", fmt.Sprintf("backend %q: address %q is declared as .host = %q", b.Name, b.Address, host), nil)
		}
	}
	for _, d := range c.Directors {
		if len(c.Backends) == 0 {
			continue
		}
		var decl *ast.DirectorDeclaration
		cnt := 0
		for _, dd := range directors {
			// the declared name is the sanitised resource name: find it by membership shape (one director per case)
			decl = dd
			cnt++
		}
		if cnt != 1 || decl == nil {
			// several directors (shielding) are not generated by these cases
			if cnt == 0 {
				fail("missing|director", fmt.Sprintf("director %q is not declared", d.Name), nil)
			}
			continue
		}
		var members []string
		for _, p := range decl.Properties {
			if bo, ok := p.(*ast.DirectorBackendObject); ok {
				for _, v := range bo.Values {
					if v.Key.Value == "backend" {
						if id, ok := v.Value.(*ast.Ident); ok {
							members = append(members, id.Value)
						}
					}
				}
			}
		}
		if len(members) != len(d.Backends) {
			fail("unfaithful|director-members", fmt.Sprintf("director %q has members %v, declared members %v", d.Name, d.Backends, members), nil)
			continue
		}
		for i, m := range d.Backends {
			if members[i] != declaredFor[m] {
				fail("unfaithful|director-member-name", fmt.Sprintf("director %q member %q is written as %q but that backend is declared as %q", d.Name, m, members[i], declaredFor[m]), nil)
			}
		}
	}
	return res
}

func itemKind(name string) string {
	if i := strings.Index(name, ":"); i > 0 {
		return name[:i]
	}
	return name
}

func responseOf(stmts []ast.Statement) (content, ctype string, found bool) {
	var walk func(ss []ast.Statement)
	walk = func(ss []ast.Statement) {
		for _, s := range ss {
			switch t := s.(type) {
			case *ast.IfStatement:
				walk(t.Consequence.Statements)
			case *ast.SyntheticStatement:
				if v, ok := t.Value.(*ast.String); ok {
					content, found = v.Value, true
				}
			case *ast.SetStatement:
				if strings.EqualFold(t.Ident.Value, "obj.http.Content-Type") {
					if v, ok := t.Value.(*ast.String); ok {
						ctype = v.Value
					}
				}
			}
		}
	}
	walk(stmts)
	return
}

func init() {
	engine.Register(engine.Spec[Case]{
		ID:    "C20",
		Level: "exploration",
		Rule: "resource sets fed through three entry paths (a stub snippet.Fetcher, the real remote.FastlyApiFetcher whose HTTP client is answered by a fake Fastly API built from the case, and a generated Terraform plan JSON through terraform.ParseStdin; plans with two services are generated one service after the other on one fetcher, in both orders): every string of length <= 2 (quick) / 3 (thorough) over the 12-symbol alphabet {a \" % 2 0 { } newline # \\ space ;} plus URL-encoded, quote/brace and comment-delimiter (*/ /* // CR TAB) specials placed in turn in every free-text field (dictionary key, dictionary value, ACL comment, backend address, response content, response content type), every pair of fields with every pair of strings of length <= 1 (thorough: 2), every 1-2 character insertion of -, ., space, é at every position of a backend name (also as director member) and of a director name, and structures (0/1/3 items, IPv4/IPv6 entries x negated x 6 masks, directors with 0-2 members x 3 types x retries absent/0/5, two of each, nothing, 4 Terraform module layouts with items / the service in child and grandchild modules, backend names that differ only in the length of a run of non-identifier characters). Oracle: generation does not crash or refuse, every generated item parses, and the parsed tables / acls / backends / directors / response objects have exactly the key, value, address, mask, negation, membership and content of the resources; a director member must name the backend as it is declared. non-trivial = every case; distinct = distinct (path, resources)",
		Gen:  gen20,
		Key:  func(c Case) string { b, _ := json.Marshal(c); return string(b) },
		Run:  run,
		Workers: 4, // os.Stdout is swapped while snippet.Fetch prints progress: keep each process single-threaded
		Assumptions: []string{"values are compared after the parser's escape decoding, i.e. with what the program would see", "a Terraform dictionary is a map: items are compared sorted by key with unique keys"},
	})
}
