// Package c08: simulation is total and bounded (crash / hang oracle only).
package c08

import (
	"fmt"
	"os"
	"path/filepath"
	"runtime"
	"runtime/debug"
	"sort"
	"strings"
	"time"

	"github.com/ysugimoto/falco/v2/config"
	icontext "github.com/ysugimoto/falco/v2/interpreter/context"
	"github.com/ysugimoto/falco/v2/resolver"
	"github.com/ysugimoto/falco/v2/tester"
	"github.com/ysugimoto/falco/v2/zzverif/fuel"

	"verif/mc/engine"
	"verif/mc/gen"
	"verif/mc/ref/tables"
	"verif/mc/sim"
)

// Case kinds: probe (one subroutine run in a scope), serve (requests through ServeHTTP), test (the test runner).
type Case struct {
	Kind     string            `json:"kind"`
	Main     string            `json:"main,omitempty"`
	Modules  map[string]string `json:"modules,omitempty"`
	Probe    string            `json:"probe,omitempty"`
	Scope    string            `json:"scope,omitempty"`
	Requests []Request         `json:"requests,omitempty"`
	TestSrc  string            `json:"test,omitempty"`
	Label    string            `json:"label"` // class-key part: what is exercised
}

// Request is one inbound request.
type Request struct {
	Method string      `json:"method"`
	URL    string      `json:"url"`
	Header [][2]string `json:"header"`
}

const helpers = `
backend be1 { .host = "example.com"; .port = "80"; }
acl ac1 { "10.0.0.0"/8; "::1"; }
table tb1 { "k": "v", "n": "1" }
table tbi INTEGER { "k": 1 }
ratecounter rc1 { }
penaltybox pb1 { }
sub vcl_recv { }
`

var assignOps = []string{"=", "+=", "-=", "*=", "/=", "%=", "|=", "&=", "^=", "<<=", ">>=", "rol=", "ror=", "&&=", "||="}

type tv struct{ typ, expr string }

// boundary operands; "var:" operands are assigned to a local first so that non-literal paths run too
var boundary = map[string][]string{
	"INTEGER": {"0", "1", "-1", "9223372036854775807", "-9223372036854775807", "-0x8000000000000000", "2147483648", "63", "64", "65", "math.INTEGER_MAX", "math.INTEGER_MIN"},
	"FLOAT":   {"0.0", "0.5", "-1.5", "2.0", "1e308", "math.POS_INFINITY", "math.NEG_INFINITY", "math.NAN", "math.FLOAT_MAX", "math.FLOAT_MIN"},
	"RTIME":   {"0s", "1s", "-1s", "1ms", "106751d", "9223372036s"},
	"STRING":  {`""`, `"abc"`, `"0"`, `"-1"`, `"%"`, "req.http.Never-Set"},
	"BOOL":    {"true", "false"},
	"TIME":    {"now", "std.integer2time(0)", "std.integer2time(-1)", "std.integer2time(253402300800)"},
	"IP":      {`"127.0.0.1"`, "client.ip", `"::1"`, `"not-an-ip"`},
}

var inits = map[string]string{"INTEGER": "7", "FLOAT": "1.5", "RTIME": "90s", "STRING": `"s"`, "BOOL": "true", "TIME": "now", "IP": `"10.0.0.1"`}

var typeOrder = []string{"INTEGER", "FLOAT", "RTIME", "STRING", "BOOL", "TIME", "IP"}

func genAssign(emit func(Case)) {
	for _, tt := range typeOrder {
		for _, vt := range typeOrder {
			for _, op := range assignOps {
				for _, v := range boundary[vt] {
					for _, viaVar := range []bool{false, true} {
						for _, init := range []string{inits[tt], boundary[tt][len(boundary[tt])-1], boundary[tt][0]} {
							var b strings.Builder
							b.WriteString("sub probe {\n")
							fmt.Fprintf(&b, "  declare local var.t %s;\n  set var.t = %s;\n", tt, init)
							operand := v
							if viaVar {
								fmt.Fprintf(&b, "  declare local var.o %s;\n  set var.o = %s;\n", vt, v)
								operand = "var.o"
							}
							fmt.Fprintf(&b, "  set var.t %s %s;\n  log var.t;\n}\n", op, operand)
							form := "literal"
							if viaVar {
								form = "variable"
							}
							emit(Case{Kind: "probe", Main: helpers, Probe: b.String(), Scope: "recv", Label: fmt.Sprintf("assign %s %s %s %s", tt, op, vt, form)})
						}
					}
				}
			}
		}
	}
	// header targets
	for _, op := range assignOps {
		for _, vt := range typeOrder {
			for _, v := range boundary[vt] {
				emit(Case{Kind: "probe", Main: helpers, Scope: "recv", Label: fmt.Sprintf("assign header %s %s", op, vt),
					Probe: fmt.Sprintf("sub probe {\n  set req.http.T = \"7\";\n  set req.http.T %s %s;\n  set req.http.T:k %s %s;\n  log req.http.T;\n}\n", op, v, op, v)})
			}
		}
	}
}

var argValues = map[string][]string{
	"STRING":      {`"abc"`, `""`, `"0"`, `"%"`, "req.http.Never-Set"},
	"INTEGER":     {"1", "0", "-1", "9223372036854775807", "64"},
	"FLOAT":       {"0.5", "0.0", "-1.5", "math.NAN", "math.POS_INFINITY"},
	"BOOL":        {"true", "false"},
	"RTIME":       {"1s", "0s", "-1s"},
	"TIME":        {"now", "std.integer2time(0)", "std.integer2time(-1)"},
	"IP":          {"client.ip", `"::1"`},
	"ID":          {"sha256", "aes128", "cbc", "nopad", "req.http.Cookie", "tb1", "foo"},
	"TABLE":       {"tb1", "tbi"},
	"ACL":         {"ac1"},
	"BACKEND":     {"be1"},
	"STRING_LIST": {`"a"`, `""`},
}

var retLocal = map[string]string{"STRING": "STRING", "INTEGER": "INTEGER", "FLOAT": "FLOAT", "BOOL": "BOOL", "RTIME": "RTIME", "TIME": "TIME", "IP": "IP", "BACKEND": "BACKEND"}

func genFunctions(tier string, emit func(Case)) {
	fns, err := tables.Functions()
	if err != nil {
		panic(err)
	}
	for _, f := range fns {
		scope := "recv"
		if len(f.On) > 0 && !tables.Has(f.On, "RECV") {
			scope = strings.ToLower(f.On[0])
		}
		sigs := f.Arguments
		if len(sigs) == 0 {
			sigs = [][]string{{}}
		}
		for _, sig := range sigs {
			// full product up to 3 parameters; beyond: at most one parameter away from its first value
			var combos [][]string
			var rec func(i int, cur []string, devs int)
			rec = func(i int, cur []string, devs int) {
				if i == len(sig) {
					combos = append(combos, append([]string{}, cur...))
					return
				}
				vals := argValues[sig[i]]
				if vals == nil {
					vals = []string{`"x"`}
				}
				for vi, v := range vals {
					d := devs
					if vi > 0 {
						d++
					}
					if len(sig) > 3 && d > 1 {
						continue
					}
					rec(i+1, append(cur, v), d)
				}
			}
			rec(0, nil, 0)
			for _, args := range combos {
				call := fmt.Sprintf("%s(%s)", f.Name, strings.Join(args, ", "))
				var probe string
				if lt, ok := retLocal[f.Return]; ok {
					probe = fmt.Sprintf("sub probe {\n  declare local var.r %s;\n  set var.r = %s;\n  log var.r;\n}\n", lt, call)
				} else {
					probe = fmt.Sprintf("sub probe {\n  %s;\n}\n", call)
				}
				emit(Case{Kind: "probe", Main: helpers, Probe: probe, Scope: scope, Label: "function " + f.Name})
				// also inside a condition and a string concatenation
				if f.Return == "BOOL" {
					emit(Case{Kind: "probe", Main: helpers, Probe: fmt.Sprintf("sub probe {\n  if (%s) { log \"t\"; }\n}\n", call), Scope: scope, Label: "function " + f.Name})
				} else if f.Return == "STRING" {
					emit(Case{Kind: "probe", Main: helpers, Probe: fmt.Sprintf("sub probe {\n  set req.http.R = \"p\" %s \"s\";\n}\n", call), Scope: scope, Label: "function " + f.Name})
				}
			}
		}
	}
}

func genStatements(emit func(Case)) {
	engine.Explore(1, 0, func(c *engine.C) {
		root := gen.G{C: c}.Program(1)
		st := root.List("Statements")
		if len(st) != 1 || st[0].Kind != "SubroutineDeclaration" || len(st[0].List("Parameters")) > 0 || st[0].Child("ReturnType") != nil {
			return
		}
		body := st[0].Child("Block")
		probe := gen.Sub("probe")
		probe.Set("Block", body)
		src := gen.Source(gen.VCL(probe))
		kind := "empty"
		if b := body.List("Statements"); len(b) > 0 {
			kind = b[0].Kind
			if len(b) == 3 {
				kind = b[1].Kind
			}
		}
		for _, sc := range sim.ScopeNames {
			emit(Case{Kind: "probe", Main: helpers + "sub other { set req.http.O = \"1\"; }\n", Probe: src, Scope: sc, Label: "statement " + kind})
		}
	})
}

func genRecursion(emit func(Case)) {
	mains := []struct{ label, src string }{
		{"recursion self", "sub a { call a; }\nsub vcl_recv { call a; }\n"},
		{"recursion mutual", "sub a { call b; }\nsub b { call a; }\nsub vcl_recv { call a; }\n"},
		{"recursion functional", "sub f() STRING { return f(); }\nsub vcl_recv { set req.http.A = f(); }\n"},
		{"recursion functional mutual", "sub f(INTEGER var.n) INTEGER { return g(var.n); }\nsub g(INTEGER var.n) INTEGER { return f(var.n); }\nsub vcl_recv { declare local var.i INTEGER; set var.i = f(1); }\n"},
		{"recursion lifecycle sub", "sub vcl_recv { call vcl_recv; }\n"},
		{"restart unconditional recv", "sub vcl_recv { restart; }\n"},
		{"restart return recv", "sub vcl_recv { return(restart); }\n"},
		{"restart unconditional deliver", "sub vcl_recv { return(lookup); }\nsub vcl_deliver { restart; }\n"},
		{"restart return fetch", "sub vcl_recv { return(lookup); }\nsub vcl_fetch { return(restart); }\n"},
		{"restart unconditional error", "sub vcl_recv { error 601; }\nsub vcl_error { restart; }\n"},
		{"restart in hit", "sub vcl_recv { return(lookup); }\nsub vcl_fetch { set beresp.ttl = 60s; return(deliver); }\nsub vcl_hit { restart; }\n"},
		{"restart in miss", "sub vcl_recv { return(lookup); }\nsub vcl_miss { restart; }\n"},
		{"restart in pass", "sub vcl_recv { return(pass); }\nsub vcl_pass { restart; }\n"},
		{"restart in hash", "sub vcl_recv { return(lookup); }\nsub vcl_hash { restart; }\n"},
		{"restart in log", "sub vcl_log { restart; }\n"},
		{"error in error", "sub vcl_recv { error 601; }\nsub vcl_error { error 602; }\n"},
		{"error in deliver", "sub vcl_deliver { error 601; }\n"},
		{"deliver_stale cold", "sub vcl_recv { return(lookup); }\nsub vcl_miss { return(deliver_stale); }\n"},
		{"deliver_stale cold with backend", "backend b { .host = \"example.com\"; .port = \"80\"; }\nsub vcl_recv { set req.backend = b; return(lookup); }\nsub vcl_miss { return(deliver_stale); }\n"},
		{"deliver_stale from pass / hit / fetch with backend", "backend b { .host = \"example.com\"; .port = \"80\"; }\nsub vcl_recv { set req.backend = b; if (req.url ~ \"x\") { return(pass); } return(lookup); }\nsub vcl_pass { return(deliver_stale); }\nsub vcl_hit { return(deliver_stale); }\nsub vcl_fetch { return(deliver_stale); }\n"},
		{"deliver_stale error", "sub vcl_recv { error 601; }\nsub vcl_error { return(deliver_stale); }\n"},
		{"goto loop", "sub vcl_recv { again: set req.http.A = req.http.A \"x\"; goto again; }\n"},
		{"goto forward", "sub vcl_recv { goto end; set req.http.A = \"x\"; end: }\n"},
		{"empty", ""},
		{"no recv", "sub vcl_deliver { set resp.http.A = \"a\"; }\n"},
		{"synthetic huge", "sub vcl_recv { error 601; }\nsub vcl_error { synthetic \"x\"; synthetic.base64 \"!!!\"; return(deliver); }\n"},
		{"esi", "sub vcl_recv { esi; }\nsub vcl_fetch { esi; }\n"},
	}
	reqs := []Request{{"GET", "http://example.com/a", nil}, {"GET", "http://example.com/a", nil}}
	// call graphs without recursion whose expansion is exponential: a chain of n subroutines each calling the next one k times
	for _, n := range []int{12, 24, 40, 60} {
		for _, k := range []int{2, 3} {
			var b strings.Builder
			for i := 0; i < n; i++ {
				fmt.Fprintf(&b, "sub s%02d {%s }\n", i, strings.Repeat(fmt.Sprintf(" call s%02d;", i+1), k))
			}
			fmt.Fprintf(&b, "sub s%02d { set req.http.Leaf = \"1\"; }\nsub vcl_recv { call s00; }\n", n)
			mains = append(mains, struct{ label, src string }{fmt.Sprintf("call-dag depth=%d fanout=%d", n, k), b.String()})
		}
	}
	// a diamond: many paths re-converge on one subroutine at every level
	{
		var b strings.Builder
		for i := 0; i < 30; i++ {
			fmt.Fprintf(&b, "sub l%02d { call m%02da; call m%02db; }\nsub m%02da { call l%02d; }\nsub m%02db { call l%02d; }\n", i, i, i, i, i+1, i, i+1)
		}
		b.WriteString("sub l30 { set req.http.Leaf = \"1\"; }\nsub vcl_recv { call l00; }\n")
		mains = append(mains, struct{ label, src string }{"call-dag diamond depth=30", b.String()})
	}
	for _, m := range mains {
		emit(Case{Kind: "serve", Main: m.src, Requests: reqs, Label: m.label})
	}
	// header values that are malformed as sub-field lists, read / replaced / removed through every object
	for _, v := range []string{`{"a=""}`, `{"""}`, `{"a="x"}`, `{"a=","}`, `{"a="\"}`, `{"=,=;"}`, `{"a"}`, `{"a=, b="}`, `{",,,"}`, `{"a=""b"}`, `{" a = " "}`} {
		for _, ob := range []struct{ obj, sub, pre string }{{"req", "recv", ""}, {"bereq", "miss", "sub vcl_recv { return(lookup); }\n"}, {"beresp", "fetch", "sub vcl_recv { return(lookup); }\n"}, {"resp", "deliver", ""}, {"obj", "error", "sub vcl_recv { error 601; }\n"}} {
			h := ob.obj + ".http.X"
			body := fmt.Sprintf("set %s = %s; set %s.http.R1 = %s:a; set %s.http.R2 = %s:b; if (%s:a) { set %s.http.R3 = \"t\"; } unset %s:b; set %s:a = \"z\"; set %s.http.R4 = %s:a; unset %s:a; set %s.http.R5 = subfield(%s, \"a\"); set %s.http.R6 = subfield(%s, \"a\", \";\");", h, v, ob.obj, h, ob.obj, h, h, ob.obj, h, h, ob.obj, h, h, ob.obj, h, ob.obj, h)
			emit(Case{Kind: "serve", Main: ob.pre + "sub vcl_" + ob.sub + " { " + body + " }\n", Requests: reqs[:1], Label: "malformed sub-field list " + ob.obj})
		}
	}
	// the same shapes arriving in a request header
	for _, v := range []string{`a="`, `"`, `a="x`, `a=",`, `a=""b`, ` a = " `, `a=\`} {
		emit(Case{Kind: "serve", Main: "sub vcl_recv { set req.http.R1 = req.http.X:a; set req.http.R2 = subfield(req.http.X, \"a\"); if (req.http.X:a == \"x\") { set req.http.R3 = \"t\"; } }\n",
			Requests: []Request{{"GET", "http://example.com/a", [][2]string{{"X", v}}}}, Label: "malformed sub-field list request header"})
	}
	// include shapes: self / mutual / missing, at root and inside a subroutine
	for _, inSub := range []bool{false, true} {
		for mask := 0; mask < 8; mask++ {
			incs := func(self string, m int) string {
				var s []string
				for i, t := range []string{"a", self, "missing"} {
					if m&(1<<i) != 0 {
						s = append(s, fmt.Sprintf("include \"%s\";", t))
					}
				}
				return strings.Join(s, "\n")
			}
			for amask := 0; amask < 8; amask++ {
				var main, a string
				if inSub {
					main = fmt.Sprintf("sub vcl_recv {\n%s\nset req.http.M = \"1\";\n}\n", incs("main", mask))
					a = incs("a", amask) + "\nset req.http.A = \"1\";\n"
				} else {
					main = incs("main", mask) + "\nsub vcl_recv { set req.http.M = \"1\"; }\n"
					a = incs("a", amask) + "\nsub sa { set req.http.A = \"1\"; }\n"
				}
				emit(Case{Kind: "serve", Main: main, Modules: map[string]string{"a": a, "main": main}, Requests: reqs[:1],
					Label: fmt.Sprintf("include-cycle")})
			}
		}
	}
}

// genBackends: every director type x member shapes (0..3 members, quorum 0/50/100 %, unhealthy-looking or missing
// properties) x the place where the backend is selected x the state vcl_recv returns; plus plain backends with
// odd properties and no backend at all.
func genBackends(emit func(Case)) {
	backends := "backend b1 { .host = \"example.com\"; .port = \"80\"; }\nbackend b2 { .host = \"example.org\"; .port = \"80\"; }\nbackend b3 { .host = \"example.net\"; }\n"
	members := []string{
		"",
		"{ .backend = b1; .weight = 1; }",
		"{ .backend = b1; .weight = 1; } { .backend = b2; .weight = 1; }",
		"{ .backend = b1; .weight = 0; } { .backend = b2; .weight = 3; } { .backend = b3; .weight = 1; }",
		"{ .backend = b1; .id = \"one\"; } { .backend = b2; .id = \"two\"; }",
		"{ .backend = b1; }",
		// weights around and beyond 1000 in total
		"{ .backend = b1; .weight = 1000; }",
		"{ .backend = b1; .weight = 1001; }",
		"{ .backend = b1; .weight = 600; } { .backend = b2; .weight = 600; }",
		"{ .backend = b1; .weight = 999; } { .backend = b2; .weight = 1; } { .backend = b3; .weight = 1; }",
		"{ .backend = b1; .weight = 100000; }",
	}
	props := []string{"", ".quorum = 0%;", ".quorum = 50%;", ".quorum = 100%;", ".retries = 0;", ".retries = 5;", ".key = object; .seed = 1; .vnodes_per_node = 1;", ".key = client;"}
	selects := []struct{ name, recv, later string }{
		{"recv", "set req.backend = d;", ""},
		{"miss", "", "sub vcl_miss { set req.backend = d; return(fetch); }\nsub vcl_pass { set req.backend = d; return(pass); }\n"},
		{"recv-conditional", "if (req.url ~ \"x\") { set req.backend = d; }", ""},
		{"recv-read", "set req.backend = d; set req.http.B = req.backend; set req.http.H = backend.b1.healthy;", ""},
	}
	reqs := []Request{{"GET", "http://example.com/a", nil}, {"GET", "http://example.com/x", nil}}
	for _, typ := range []string{"random", "hash", "client", "fallback", "chash", "shield", "unknown"} {
		for mi, m := range members {
			for pi, pr := range props {
				// full product for the member shape x property; selection place and return state within 1 deviation
				for si, sel := range selects {
					for ri, ret := range []string{"lookup", "pass", "error", "restart"} {
						if (si > 0 && ri > 0) || (mi > 2 && pi > 3 && (si > 0 || ri > 1)) {
							continue
						}
						retStmt := "return(" + ret + ");"
						if ret == "restart" {
							retStmt = "if (req.restarts == 0) { restart; } return(pass);"
						}
						main := fmt.Sprintf("%sdirector d %s { %s %s }\nsub vcl_recv { %s %s }\n%s", backends, typ, pr, m, sel.recv, retStmt, sel.later)
						emit(Case{Kind: "serve", Main: main, Requests: reqs, Label: "backend-selection " + typ + " " + sel.name + " return " + ret})
					}
				}
			}
		}
	}
	// plain backends with odd properties, and a program without any backend
	for _, b := range []string{
		"backend b1 { }", "backend b1 { .host = \"\"; }", "backend b1 { .port = \"80\"; }", "backend b1 { .host = \"example.com\"; .port = \"notaport\"; }",
		"backend b1 { .host = \"example.com\"; .port = \"99999\"; }", "backend b1 { .host = \"example.com\"; .ssl = true; .ssl_sni_hostname = \"\"; }",
		"backend b1 { .host = \"example.com\"; .connect_timeout = 0s; .first_byte_timeout = -1s; .between_bytes_timeout = 9999999s; }",
		"backend b1 { .host = \"example.com\"; .probe = { .request = \"GET / HTTP/1.1\"; .threshold = 0; .window = 0; .initial = 9; } }",
		"backend b1 { .host = \"example.com\"; .always_use_host_header = true; .host_header = \"\"; }",
		"",
	} {
		for _, ret := range []string{"lookup", "pass"} {
			for _, set := range []string{"", "set req.backend = b1;"} {
				if b == "" && set != "" {
					continue
				}
				emit(Case{Kind: "serve", Main: b + "\nsub vcl_recv { " + set + " return(" + ret + "); }\n", Requests: reqs[:1], Label: "backend-properties return " + ret})
			}
		}
	}
}

func genLifecycle(tier string, emit func(Case)) {
	vars, err := tables.Variables()
	if err != nil {
		panic(err)
	}
	// a program that reads every readable variable of every scope
	var b strings.Builder
	b.WriteString("backend be1 { .host = \"example.com\"; .port = \"80\"; }\n")
	for _, sc := range tables.Scopes {
		fmt.Fprintf(&b, "sub vcl_%s {\n", strings.ToLower(sc))
		for _, v := range vars {
			if v.Get == "" || !tables.Has(v.On, sc) || strings.Contains(v.Name, "%") || strings.HasSuffix(v.Name, ".http.") {
				continue
			}
			switch v.Get {
			case "STRING", "INTEGER", "FLOAT", "BOOL", "RTIME", "TIME", "IP":
				fmt.Fprintf(&b, "  log \"%s=\" %s;\n", v.Name, v.Name)
			}
		}
		b.WriteString("}\n")
	}
	prog := b.String()
	methods := []string{"GET", "POST", "FASTLYPURGE", "get", "PURGE"}
	paths := []string{"/", "//a/../b", "/%7a%20%00", "/" + strings.Repeat("p", 4096)}
	queries := []string{"", "?a=1&a=2", "?%25&=&&x"}
	var many [][2]string
	for i := 0; i < 40; i++ {
		many = append(many, [2]string{fmt.Sprintf("X-H%d", i), "v"})
	}
	headers := [][][2]string{nil, {{"X-Dup", "1"}, {"X-Dup", "2"}}, {{"X-Empty", ""}}, many, {{"Cookie", "a=1; b=2; =; ;"}, {"Accept-Language", ",,;q=x"}, {"Fastly-FF", "x"}, {"Range", "bytes=-"}}}
	for _, m := range methods {
		for _, p := range paths {
			for _, q := range queries {
				for _, h := range headers {
					r := Request{Method: m, URL: "http://example.com" + p + q, Header: h}
					for n := 1; n <= 3; n++ {
						if n > 1 && tier != "thorough" && (p != "/" || q != "") {
							continue
						}
						var rs []Request
						for i := 0; i < n; i++ {
							rs = append(rs, r)
						}
						emit(Case{Kind: "serve", Main: prog, Requests: rs, Label: "lifecycle all-variables"})
					}
				}
			}
		}
	}
}

func genTester(emit func(Case)) {
	tests := []struct{ label, main, test string }{
		{"tester recursion", "sub a { call a; }\nsub vcl_recv { call a; }\n", "// @scope: recv\nsub test_a { call a; assert.true(true); }\n"},
		{"tester runtime error", "sub vcl_recv { }\n", "// @scope: recv\nsub test_e { set var.undeclared = \"x\"; }\n"},
		{"tester testing.call_subroutine", "sub vcl_recv { restart; }\n", "// @scope: recv\nsub test_r { testing.call_subroutine(\"vcl_recv\"); assert.restart(); }\n"},
		{"tester bad assert args", "sub vcl_recv { }\n", "// @scope: recv\nsub test_b { assert.equal(1); assert.match(\"a\", \"(\"); assert.true(req.http.Never); }\n"},
		{"tester division", "sub vcl_recv { }\n", "// @scope: recv\nsub test_d { declare local var.i INTEGER; set var.i = 1; set var.i /= 0; set var.i %= 0; set var.i <<= -1; }\n"},
		{"tester empty", "", "sub test_x { }\n"},
		{"tester self include", "include \"main\";\nsub vcl_recv { }\n", "// @scope: recv\nsub test_i { assert.true(true); }\n"},
	}
	for _, t := range tests {
		emit(Case{Kind: "test", Main: t.main, TestSrc: t.test, Label: t.label})
	}
}

// genConcat: string concatenations whose terms carry a sign or a prefix operator, in every position and for every
// operand type, in each context that evaluates a concatenation (type errors are fine, crashes are not)
func genConcat(emit func(Case)) {
	decl := "  declare local var.R RTIME;\n  declare local var.I INTEGER;\n  declare local var.F FLOAT;\n  declare local var.B BOOL;\n  declare local var.S STRING;\n  declare local var.N STRING;\n  declare local var.T TIME;\n  declare local var.P IP;\n" +
		"  set var.R = 5s;\n  set var.I = 3;\n  set var.F = 1.5;\n  set var.B = true;\n  set var.S = \"s\";\n  set var.T = now;\n  set var.P = \"10.0.0.1\";\n"
	atoms := []string{"var.R", "var.I", "var.F", "var.B", "var.S", "var.N", "var.T", "var.P", "req.max_stale_if_error", "now", "client.ip", "req.http.Never-Set", "5", "1.5", "5s", `"s"`, "std.strlen(var.S)", "(var.I)"}
	signs := []string{"", "-", "+", "!"}
	rests := []string{"", ` "s"`, " var.I", " -var.I", " + 5s", " - var.R", ` "a" var.R`, " + var.S", ` "a" -var.R "b"`}
	ctxs := []struct{ name, stmt string }{
		{"set-header", "set req.http.X = %s;"}, {"set-local", "set var.S = %s;"}, {"log", "log %s;"}, {"declare-init", "declare local var.Z STRING = %s;"},
		{"argument", "set var.I = std.strlen(%s);"}, {"append", "set req.http.X += %s;"}, {"condition", "if (%s) { esi; }"},
	}
	for _, cx := range ctxs {
		for _, sg := range signs {
			for _, a := range atoms {
				for _, r := range rests {
					if sg == "" && r == "" {
						continue
					}
					e := sg + a + r
					emit(Case{Kind: "probe", Main: helpers, Scope: "recv", Label: "concat " + cx.name + " sign:" + sg,
						Probe: "sub probe {\n" + decl + "  " + fmt.Sprintf(cx.stmt, e) + "\n}\n"})
				}
			}
		}
	}
}

// genCrypto: the symmetric cipher built-ins with well-formed keys and IVs (the generic function family only reaches their
// argument validation): every cipher x mode x padding x text length around the block size, for each of the four functions
func genCrypto(emit func(Case)) {
	hexOf := func(n int) string { return strings.Repeat("0123456789abcdef", 8)[:n] }
	keys := map[string]int{"aes128": 32, "aes192": 48, "aes256": 64}
	ivs := map[string]int{"cbc": 32, "ctr": 32, "gcm": 24, "ccm": 14}
	hexTexts := []string{"", "a", "aa", "aabbccddee", hexOf(30), hexOf(32), hexOf(34), hexOf(64), "zz"}
	b64Texts := []string{"", "YQ==", "YWJjZGVmZ2hpamtsbW5vcA==", "YWJjZGVmZ2hpamtsbW5vcHE=", "!", "YWJjZGVmZ2hpamtsbW5vcGFiY2RlZmdoaWprbG1ub3A="}
	for _, fn := range []string{"crypto.encrypt_hex", "crypto.decrypt_hex", "crypto.encrypt_base64", "crypto.decrypt_base64"} {
		texts := hexTexts
		if strings.HasSuffix(fn, "base64") {
			texts = b64Texts
		}
		for _, ci := range []string{"aes128", "aes192", "aes256"} {
			for _, mode := range []string{"cbc", "ctr", "gcm", "ccm"} {
				for _, pad := range []string{"nopad", "pkcs7"} {
					for _, ivLen := range []int{ivs[mode], ivs[mode] - 2} {
						for _, tx := range texts {
							call := fmt.Sprintf("%s(%s, %s, %s, \"%s\", \"%s\", \"%s\")", fn, ci, mode, pad, hexOf(keys[ci]), hexOf(ivLen), tx)
							emit(Case{Kind: "probe", Main: helpers, Scope: "recv", Label: "crypto " + fn + " " + mode + " " + pad,
								Probe: fmt.Sprintf("sub probe {\n  set req.http.R = %s;\n  log req.http.R;\n  log fastly.error;\n}\n", call)})
						}
					}
				}
			}
		}
	}
}

// genInitFailure: programs that parse but are refused when the simulator initialises, each asked three times on one instance
// (a request that ends early must leave the instance usable)
func genInitFailure(emit func(Case)) {
	be := "backend b1 { .host = \"example.com\"; .port = \"80\"; }\n"
	recv := "sub vcl_recv { return(lookup); }\n"
	progs := []struct {
		label, main string
		mods        map[string]string
	}{
		{"duplicate subroutine", be + "sub a { esi; }\nsub a { esi; }\n" + recv, nil},
		{"duplicate backend", be + be + recv, nil},
		{"duplicate table", be + "table t { \"k\": \"v\" }\ntable t { \"k\": \"w\" }\n" + recv, nil},
		{"duplicate acl", be + "acl a { \"10.0.0.1\"; }\nacl a { \"10.0.0.2\"; }\n" + recv, nil},
		{"director names unknown backend", be + "director d random { { .backend = nosuch; .weight = 1; } }\n" + recv, nil},
		{"director shadows backend", be + "director b1 random { { .backend = b1; .weight = 1; } }\n" + recv, nil},
		{"root include cycle", be + "include \"m\";\n" + recv, map[string]string{"m.vcl": "include \"m\";\n"}},
		{"root include missing", be + "include \"nosuch\";\n" + recv, nil},
		{"root include with syntax error", be + "include \"m\";\n" + recv, map[string]string{"m.vcl": "sub broken {\n  set req.http.A = ;\n}\n"}},
		{"duplicate penaltybox", be + "penaltybox p { }\npenaltybox p { }\n" + recv, nil},
		{"duplicate ratecounter", be + "ratecounter r { }\nratecounter r { }\n" + recv, nil},
		{"no subroutine at all", be, nil},
		{"empty program", "", nil},
	}
	reqs := []Request{{"GET", "http://example.com/a", nil}, {"GET", "http://example.com/a", nil}, {"POST", "http://example.com/b", nil}}
	for _, p := range progs {
		emit(Case{Kind: "serve", Main: p.main, Modules: p.mods, Requests: reqs, Label: "init-failure " + p.label})
	}
}

func gen08(tier string, emit func(Case)) {
	genAssign(emit)
	genInitFailure(emit)
	genCrypto(emit)
	genConcat(emit)
	genFunctions(tier, emit)
	genStatements(emit)
	genRecursion(emit)
	genBackends(emit)
	genLifecycle(tier, emit)
	genTester(emit)
}

// ---------------------------------------------------------------------------

// blockedAfter: a case normally takes milliseconds. One that has not returned after this long is looked at through the
// goroutine dump: only a body that is *parked* on a lock, channel or wait group is reported (kind "blocked", a deadlock
// that burns no fuel); a body that is still runnable is slow, not stuck, and the case is left undecided.
// (once a process has seen one parked body, later cases wait 5 s only: the dump, not the clock, is the evidence)
var blockedAfter = 90 * time.Second

var parkedStates = []string{"semacquire", "sync.Mutex.Lock", "sync.RWMutex.Lock", "sync.RWMutex.RLock", "chan receive", "chan send", "select", "sync.WaitGroup.Wait", "sync.Cond.Wait"}

func guard(budget int64, f func()) (kind, site, msg string) {
	type out struct{ kind, site, msg string }
	done := make(chan out, 1)
	go func() {
		var o out
		defer func() {
			fuel.Disarm()
			if r := recover(); r != nil {
				o.msg = fmt.Sprint(r)
				st := string(debug.Stack())
				o.kind = "panic"
				o.site = engine.PanicSite(st)
				if strings.HasPrefix(o.msg, fuel.Sentinel) {
					o.kind = "nontermination"
					o.site = "-"
				}
			}
			done <- o
		}()
		fuel.Arm(budget)
		guardedBody(f)
	}()
	select {
	case o := <-done:
		return o.kind, o.site, o.msg
	case <-time.After(blockedAfter):
	}
	buf := make([]byte, 4<<20)
	buf = buf[:runtime.Stack(buf, true)]
	for _, g := range strings.Split(string(buf), "\n\n") {
		if !strings.Contains(g, "c08.guardedBody") {
			continue
		}
		head := firstLine(g)
		for _, st := range parkedStates {
			if strings.Contains(head, "["+st) {
				defer func() { blockedAfter = 5 * time.Second }()
				return "blocked", firstFalcoFrame(g), "the case is parked (" + strings.TrimSpace(head) + ") " + blockedAfter.String() + " after it started"
			}
		}
		return "undecided", "-", "still running after " + blockedAfter.String() + ": " + strings.TrimSpace(head)
	}
	return "undecided", "-", "body goroutine not found in the dump"
}

// firstFalcoFrame: the innermost function of falco in a goroutine's stack
func firstFalcoFrame(g string) string {
	const mod = "github.com/ysugimoto/falco/v2/"
	for _, l := range strings.Split(g, "\n") {
		if strings.HasPrefix(l, mod) && !strings.Contains(l, "/zzverif/") {
			f := strings.TrimPrefix(l, mod)
			if i := strings.LastIndex(f, "("); i > 0 {
				f = f[:i]
			}
			return f
		}
	}
	return "-"
}

// guardedBody only gives the body's goroutine a recognisable frame
//
//go:noinline
func guardedBody(f func()) { f() }

func panicShape(msg string) string {
	for _, p := range []string{"index out of range", "slice bounds out of range", "nil pointer dereference", "negative shift amount", "integer divide by zero", "interface conversion", "makeslice", "nil map"} {
		if strings.Contains(msg, p) {
			return p
		}
	}
	if len(msg) > 50 {
		return msg[:50]
	}
	return msg
}

func run(c Case) engine.Result {
	var err error
	var obs []string
	budget := int64(20_000_000)
	kind, site, msg := guard(budget, func() {
		switch c.Kind {
		case "probe":
			_, err = sim.RunProbeIn(c.Main, c.Probe, c.Scope)
		case "serve":
			rs := &sim.MemResolver{Main: c.Main, Modules: c.Modules}
			ip, _ := sim.NewServerWith(rs)
			for _, r := range c.Requests {
				o := sim.Observe(ip, r.Method, r.URL, r.Header)
				if o.Panic != "" {
					panic(strings.SplitN(o.Panic, "\n", 2)[0] + "\n" + o.Panic)
				}
				obs = append(obs, fmt.Sprint(o.HTTPStatus))
			}
		case "test":
			runTester(c)
		}
	})
	if kind == "undecided" {
		return engine.Result{Skipped: true}
	}
	if kind != "" {
		if c.Kind == "serve" && kind == "panic" {
			// the stack was captured inside Observe
			if i := strings.Index(msg, "\n"); i > 0 {
				site = engine.PanicSite(msg[i:])
				msg = msg[:i]
			}
		}
		cls := kind + "@" + site + "|" + panicShape(msg)
		if !strings.HasPrefix(site, "interpreter/") {
			// a crash inside the standard library: name what was exercised
			cls += "|" + strings.Join(strings.Fields(c.Label)[:min(2, len(strings.Fields(c.Label)))], " ")
		}
		if kind == "nontermination" {
			cls = "nontermination|" + c.Label
		}
		if kind == "blocked" {
			cls = "blocked@" + site // one class per place where the body is parked (each class costs three 90 s replays to confirm)
		}
		return engine.Result{NonTrivial: true, Outcome: kind, Findings: []engine.Finding{{
			Class: cls, What: fmt.Sprintf("%s (%s): %s", kind, c.Label, firstLine(msg)), Detail: c}}}
	}
	out := "value"
	if err != nil {
		out = "reported-error"
	}
	if c.Kind == "serve" {
		out = "responses:" + strings.Join(obs, ",")
	}
	return engine.Result{NonTrivial: true, Outcome: out}
}

func firstLine(s string) string {
	if i := strings.Index(s, "\n"); i > 0 {
		return s[:i]
	}
	return s
}

func runTester(c Case) {
	dir, err := os.MkdirTemp(engine.Scratch(), "c08-test-")
	if err != nil {
		panic(err)
	}
	defer os.RemoveAll(dir)
	main := filepath.Join(dir, "main.vcl")
	os.WriteFile(main, []byte(c.Main), 0o644)
	os.WriteFile(filepath.Join(dir, "main.test.vcl"), []byte(c.TestSrc), 0o644)
	rs, err := resolver.NewFileResolvers(main, []string{dir})
	if err != nil {
		return // e.g. an empty main file is refused before the runner starts: a reported error
	}
	// same options as cmd/falco's Runner.Test
	opts := []icontext.Option{icontext.WithResolver(rs[0]), icontext.WithMaxBackends(0), icontext.WithMaxAcls(0), icontext.WithOverrideVariables(map[string]any{})}
	t := tester.New(&config.TestConfig{Filter: "*.test.vcl", IncludePaths: []string{dir}}, opts)
	t.Run(main) // verdicts are C10's business; here it only has to return
}

func init() {
	engine.Register(engine.Spec[Case]{
		ID:    "C08",
		Level: "exploration",
		Rule: "crash/hang oracle over (1) the complete product assignment operator (15) x target type (7) x operand type (7) x boundary operands (0, +-1, INT64 min/max, 2^31, 63/64/65, NaN/inf, FLOAT_MAX/MIN, empty and not-set strings, epoch boundary times, ...) x {literal, variable} x 3 initial values, plus header and header-sub-field targets; (2) every built-in function of builtin.yml x every declared signature x boundary arguments per parameter type (full product up to 3 parameters, one deviation beyond), as assignment, in a condition and in a concatenation; (3) every statement derivation within 1 deviation in all 9 scopes; recursive / mutually recursive / functional-recursive subroutines, non-recursive call graphs with exponential expansion (chains of depth 12-60 with fan-out 2-3, a diamond), header values malformed as sub-field lists read / replaced / removed on every object and arriving in a request header, unconditional restart and return(restart) in every scope, error in error, goto loops, all self/mutual/missing include shapes at root and statement level through ServeHTTP; 7 director types x 6 member shapes x 8 property sets x where the backend is selected x the state vcl_recv returns, and backends with odd properties or none; (4) the full lifecycle through ServeHTTP with a program that reads every readable predefined variable of every scope, for 5 methods x 4 paths x 3 queries x 5 header sets x 1-3 requests per instance; (5) the test runner on 7 test files. Every case runs under a fuel budget of 2e7 ticks. non-trivial = every case; distinct = distinct program/requests Round 3: concatenations whose terms carry a sign or prefix operator (4 signs x 18 atoms x 9 continuations x 7 contexts); the four symmetric cipher built-ins with well-formed keys and IVs over cipher x mode x padding x IV size x 9 text lengths around the block size; director weights around 1000. Round 4: 13 programs refused at initialisation, each asked three times on one instance; a case that has not returned after 90 s is looked at through the goroutine dump and reported as blocked only if its body is parked on a lock, channel or wait group (a body that is still runnable is left undecided).",
		Gen:  gen08,
		Key: func(c Case) string {
			var b strings.Builder
			b.WriteString(c.Kind + "\x00" + c.Main + "\x00" + c.Probe + "\x00" + c.Scope + "\x00" + c.TestSrc)
			for _, r := range c.Requests {
				b.WriteString("\x00" + r.Method + " " + r.URL + fmt.Sprint(r.Header))
			}
			ks := make([]string, 0, len(c.Modules))
			for k := range c.Modules {
				ks = append(ks, k)
			}
			sort.Strings(ks)
			for _, k := range ks {
				b.WriteString("\x00" + k + "=" + c.Modules[k])
			}
			return b.String()
		},
		Run:  run,
		Init: func(string) { sim.InstallStub() },
		Assumptions: []string{"non-termination is decided by a fuel budget of 2e7 ticks (function entries and loop iterations of the instrumented interpreter, tester, parser)", "backend requests are answered by an in-process stub transport"},
	})
}
