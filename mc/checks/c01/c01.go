// Package c01: lexing and parsing are total; diagnostics are located in the input.
package c01

import (
	"fmt"
	"os"
	"path/filepath"
	"runtime/debug"
	"sort"
	"strings"
	"unicode/utf8"

	"github.com/pkg/errors"
	"github.com/ysugimoto/falco/v2/lexer"
	"github.com/ysugimoto/falco/v2/parser"
	"github.com/ysugimoto/falco/v2/token"
	"github.com/ysugimoto/falco/v2/zzverif/fuel"

	"verif/mc/engine"
)

// Case is one input text with its provenance.
type Case struct {
	Src  string `json:"src"`
	From string `json:"from"` // bytes | tokens | hole:<name> | prefix:<file> | del:<file> | sub:<file>
}

// byte alphabet: one representative per byte class the lexer switches on
var byteAlpha = []string{"a", "C", "W", "0", "x", ".", "-", ":", "\"", "{", "}", "(", ")", "/", "*", "#", "\n", " ", ";", "=", "!", "~", "%", "|", "&", "<", ">", "^", "+", ",", "\x00", "\xff", "é",
	// one representative per class Go's unicode package distinguishes beyond ASCII (digit Nd, full-width digit, letter number,
	// no-break space, line separator, byte order mark, full-width letter) and the underscore
	"\u0663", "\uff13", "\u2167", "\u00a0", "\u2028", "\ufeff", "\uff21", "_"}

// token alphabet: one or two lexemes per token type
var tokAlpha = []string{
	"acl", "backend", "director", "table", "sub", "add", "call", "declare", "error", "esi", "include", "import",
	"log", "restart", "return", "set", "synthetic", "synthetic.base64", "unset", "remove", "if", "else", "elseif", "elsif",
	"true", "false", "penaltybox", "ratecounter", "goto", "switch", "case", "default", "break", "fallthrough", "pragma",
	"C!", "W!", "x", "req.http.A", "a:", "rol", "local", "STRING", "var.v",
	"1", "1.5", "1s", "0x1F", "1e3", "\"s\"", "{\"l\"}", "{x\"l\"x}", "\"u", "{\"u", "/*u", "\"%zz\"", "\"%u{110000}\"",
	"==", "!=", "~", "!~", ">", "<", ">=", "<=", "&&", "||",
	"=", "+=", "-=", "*=", "/=", "%=", "|=", "&=", "^=", "<<=", ">>=", "rol=", "ror=", "&&=", "||=",
	"{", "}", "(", ")", "[", "]", ",", "/", ";", ".", "!", ":", "+", "-", "%", "|", "&", "^", "*", "<<", ">>",
	"# c\n", "// c\n", "/* c */", "\n", "$",
	"\u0663", "\uff13", "\u00a0", "\ufeff", "\u2028",
}

type hole struct{ name, pre, post string }

var holes = []hole{
	{"top", "", ""},
	{"after-sub-name", "sub f ", " }"},
	{"sub-body", "sub f { ", " }"},
	{"sub-body-eof", "sub f { ", ""},
	{"sub-params", "sub f(", ") STRING { return \"a\"; }"},
	{"sub-rettype", "sub f() ", " { return \"a\"; }"},
	{"if-cond", "sub f { if (", ") { } }"},
	{"if-cond-eof", "sub f { if (", ""},
	{"after-if", "sub f { if (a) ", " }"},
	{"after-if-block", "sub f { if (a) { } ", " }"},
	{"after-else", "sub f { if (a) { } else ", " }"},
	{"set-target", "sub f { set ", " = 1; }"},
	{"set-op", "sub f { set req.http.A ", " 1; }"},
	{"set-value", "sub f { set req.http.A = ", "; }"},
	{"set-value-eof", "sub f { set req.http.A = ", ""},
	{"set-after-value", "sub f { set req.http.A = \"a\" ", "; }"},
	{"unset", "sub f { unset ", "; }"},
	{"add", "sub f { add ", " = \"a\"; }"},
	{"declare", "sub f { declare ", " var.a STRING; }"},
	{"declare-type", "sub f { declare local var.a ", "; }"},
	{"call", "sub f { call ", "; }"},
	{"call-args", "sub f { call g(", "); }"},
	{"fn-args", "sub f { set req.http.A = fn(", "); }"},
	{"fnstmt-args", "sub f { fn(", "); }"},
	{"return-paren", "sub f { return (", "); }"},
	{"return-bare", "sub f { return ", "; }"},
	{"error-code", "sub f { error ", "; }"},
	{"error-arg", "sub f { error 600 ", "; }"},
	{"log", "sub f { log ", "; }"},
	{"synthetic", "sub f { synthetic ", "; }"},
	{"esi", "sub f { esi ", "; }"},
	{"restart", "sub f { restart ", "; }"},
	{"goto", "sub f { goto ", "; }"},
	{"switch-ctl", "sub f { switch (", ") { case \"a\": break; } }"},
	{"switch-body", "sub f { switch (a) { ", " } }"},
	{"after-case", "sub f { switch (a) { case ", ": break; } }"},
	{"case-body", "sub f { switch (a) { case \"a\": ", " break; } }"},
	{"after-default", "sub f { switch (a) { default", " break; } }"},
	{"ifexpr", "sub f { set req.http.A = if(", ", \"a\", \"b\"); }"},
	{"ifexpr-2", "sub f { set req.http.A = if(a, ", ", \"b\"); }"},
	{"group", "sub f { if ((", ")) { } }"},
	{"infix-right", "sub f { if (a == ", ") { } }"},
	{"prefix-right", "sub f { if (!", ") { } }"},
	{"concat", "sub f { set req.http.A = \"a\" ", " \"b\"; }"},
	{"acl-body", "acl a { ", " }"},
	{"acl-entry-after-ip", "acl a { \"1.2.3.4\"", "; }"},
	{"acl-mask", "acl a { \"1.2.3.4\"/", "; }"},
	{"acl-name", "acl ", " { }"},
	{"backend-body", "backend b { ", " }"},
	{"backend-prop-value", "backend b { .host = ", "; }"},
	{"backend-prop-key", "backend b { .", " = \"a\"; }"},
	{"probe-body", "backend b { .probe = { ", " } }"},
	{"probe-eof", "backend b { .probe = { ", ""},
	{"director-type", "director d ", " { }"},
	{"director-body", "director d random { ", " }"},
	{"director-backend", "director d random { { ", " } }"},
	{"director-prop", "director d random { .quorum = ", "; }"},
	{"table-type", "table t ", " { }"},
	{"table-body", "table t { ", " }"},
	{"table-value", "table t { \"k\": ", " }"},
	{"table-after-value", "table t { \"k\": \"v\" ", " }"},
	{"include", "include ", ";"},
	{"import", "import ", ";"},
	{"penaltybox", "penaltybox p ", ""},
	{"ratecounter", "ratecounter r { ", " }"},
	{"snippet-top", "set req.http.A = \"a\"; ", ""},
	{"long-string", "sub f { set req.http.A = {\"", "\"}; }"},
	{"block", "sub f { { ", " } }"},
	{"label", "sub f { goto a; ", " a: }"},
}

func corpus() []struct{ name, src string } {
	var out []struct{ name, src string }
	filepath.Walk("/repo/examples", func(p string, info os.FileInfo, err error) error {
		if err == nil && !info.IsDir() && strings.HasSuffix(p, ".vcl") {
			b, err := os.ReadFile(p)
			if err == nil {
				rel, _ := filepath.Rel("/repo/examples", p)
				out = append(out, struct{ name, src string }{rel, string(b)})
			}
		}
		return nil
	})
	sort.Slice(out, func(i, j int) bool { return out[i].name < out[j].name })
	return out
}

type span struct{ start, end int }

// tokenSpans finds byte spans of the tokens of src using falco's own lexer
// (only used to pick mutation points; the oracle does not depend on it).
func tokenSpans(src string) []span {
	defer func() { recover() }()
	lines := strings.SplitAfter(src, "\n")
	offs := make([]int, len(lines)+1)
	for i, l := range lines {
		offs[i+1] = offs[i] + len(l)
	}
	var sp []span
	lx := lexer.NewFromString(src)
	for i := 0; i < 200000; i++ {
		t := lx.NextToken()
		if t.Type == token.EOF {
			break
		}
		if t.Type == token.LF || t.Line < 1 || t.Line > len(lines) {
			continue
		}
		// rune column -> byte offset
		line := lines[t.Line-1]
		col := 1
		bo := 0
		for bo < len(line) && col < t.Position {
			_, sz := utf8.DecodeRuneInString(line[bo:])
			bo += sz
			col++
		}
		st := offs[t.Line-1] + bo
		n := len(t.Literal)
		if t.Type == token.STRING {
			n += 2
		}
		if st+n > len(src) {
			n = len(src) - st
		}
		if n <= 0 {
			continue
		}
		sp = append(sp, span{st, st + n})
	}
	return sp
}

// core token alphabet for the deepest levels: one lexeme per structural class
var coreAlpha = []string{
	"sub", "acl", "table", "backend", "set", "if", "else", "return", "call", "declare", "switch", "case", "default", "pragma", "C!",
	"x", "req.http.A", "1", "1s", "\"s\"", "{\"l\"}", "\"u", "{\"u", "/*u",
	"==", "~", "&&", "!", "=", "+=", "{", "}", "(", ")", ",", ";", ":", "+", "-", "|", "# c\n", "\n",
}

func gen(tier string, emit func(Case)) {
	thorough := tier == "thorough"
	L := 3
	if thorough {
		L = 4
	}
	// 1. all byte strings of length <= L
	var rec func(prefix string, depth int)
	rec = func(prefix string, depth int) {
		emit(Case{Src: prefix, From: "bytes"})
		if depth == L {
			return
		}
		for _, b := range byteAlpha {
			rec(prefix+b, depth+1)
		}
	}
	rec("", 0)
	// 2. all token strings
	var trec func(alpha []string, prefix string, depth, max int, from string, wrap func(string) string)
	trec = func(alpha []string, prefix string, depth, max int, from string, wrap func(string) string) {
		if depth > 0 {
			emit(Case{Src: wrap(prefix), From: from})
		}
		if depth == max {
			return
		}
		for _, t := range alpha {
			sep := " "
			if prefix == "" {
				sep = ""
			}
			trec(alpha, prefix+sep+t, depth+1, max, from, wrap)
		}
	}
	id := func(s string) string { return s }
	trec(tokAlpha, "", 0, 3, "tokens", id)
	if thorough {
		trec(coreAlpha, "", 0, 4, "tokens-core", id)
	}
	// 3. parser state x lookahead
	for _, h := range holes {
		h := h
		emit(Case{Src: h.pre, From: "hole:" + h.name})
		emit(Case{Src: h.pre + h.post, From: "hole:" + h.name})
		in := func(s string) string { return h.pre + s + h.post }
		eof := func(s string) string { return h.pre + s }
		trec(tokAlpha, "", 0, 2, "hole:"+h.name, in)
		trec(tokAlpha, "", 0, 1, "hole-eof:"+h.name, eof)
		if thorough {
			trec(coreAlpha, "", 0, 3, "hole:"+h.name, in)
			trec(tokAlpha, "", 0, 2, "hole-eof:"+h.name, eof)
		}
	}
	// 4. mutation neighbourhood of the corpus
	structural := []string{"{", "}", "(", ")", ";", "\"u", "{\"u", "/*u", "pragma", "if", "$"}
	for _, f := range corpus() {
		emit(Case{Src: f.src, From: "corpus:" + f.name})
		limit := 2600
		if thorough {
			limit = 12000
		}
		if len(f.src) > limit {
			continue
		}
		sp := tokenSpans(f.src)
		for _, s := range sp {
			emit(Case{Src: f.src[:s.start], From: "prefix:" + f.name})
			emit(Case{Src: f.src[:s.end], From: "prefix:" + f.name})
			emit(Case{Src: f.src[:s.start] + f.src[s.end:], From: "del:" + f.name})
		}
		subs := structural
		if thorough && len(f.src) <= 2600 {
			subs = tokAlpha
		}
		if len(f.src) > 2600 {
			continue
		}
		for _, s := range sp {
			for _, t := range subs {
				emit(Case{Src: f.src[:s.start] + t + f.src[s.end:], From: "sub:" + f.name})
			}
		}
	}
}

type lineModel struct {
	lines []string // each including its terminating \n
}

func newLineModel(src string) lineModel {
	return lineModel{lines: strings.SplitAfter(src, "\n")}
}

func (m lineModel) runes(i int) int {
	// the lexer reads runes; each invalid byte is one rune
	return utf8.RuneCountInString(m.lines[i])
}

// located: 1<=line<=#lines and 1<=pos<=runes(line incl. newline)+1
func (m lineModel) located(line, pos int) bool {
	if line < 1 || line > len(m.lines) {
		return false
	}
	return pos >= 1 && pos <= m.runes(line-1)+1
}

// textAt returns the input text starting at (line, rune column).
func (m lineModel) textAt(line, pos int) string {
	l := m.lines[line-1]
	bo, col := 0, 1
	for bo < len(l) && col < pos {
		_, sz := utf8.DecodeRuneInString(l[bo:])
		bo += sz
		col++
	}
	rest := l[bo:]
	for i := line; i < len(m.lines); i++ {
		rest += m.lines[i]
		if len(rest) > 4096 {
			break
		}
	}
	return rest
}

// verbatim token types: Literal is the source text itself
func verbatim(t token.Token) bool {
	switch t.Type {
	case token.STRING, token.OPEN_LONG_STRING, token.CLOSE_LONG_STRING, token.EOF, token.LF, token.ILLEGAL:
		return false
	}
	return true
}

func checkToken(m lineModel, t token.Token, where string) *engine.Finding {
	if !m.located(t.Line, t.Position) {
		return &engine.Finding{
			Class: fmt.Sprintf("%s|unlocated-token|type=%s", where, tokType(t)),
			What:  fmt.Sprintf("%s: token type=%q literal=%q has line=%d position=%d outside the input", where, t.Type, trunc(t.Literal), t.Line, t.Position),
		}
	}
	at := m.textAt(t.Line, t.Position)
	switch {
	case verbatim(t):
		// the lexer reads runes: an invalid byte appears in the literal as U+FFFD
		if !strings.HasPrefix(at, t.Literal) && !strings.HasPrefix(string([]rune(at)), t.Literal) {
			return &engine.Finding{
				Class: fmt.Sprintf("%s|misplaced-token|type=%s", where, tokType(t)),
				What:  fmt.Sprintf("%s: token type=%q literal=%q at %d:%d but the input there reads %q", where, t.Type, trunc(t.Literal), t.Line, t.Position, trunc(at)),
			}
		}
	case t.Type == token.STRING && t.Offset == 2:
		if !strings.HasPrefix(at, "\"") {
			return &engine.Finding{
				Class: fmt.Sprintf("%s|misplaced-token|type=STRING", where),
				What:  fmt.Sprintf("%s: string token %q at %d:%d but the input there reads %q", where, trunc(t.Literal), t.Line, t.Position, trunc(at)),
			}
		}
	case t.Type == token.OPEN_LONG_STRING:
		if !strings.HasPrefix(at, "{") {
			return &engine.Finding{
				Class: fmt.Sprintf("%s|misplaced-token|type=OPEN_LONG_STRING", where),
				What:  fmt.Sprintf("%s: long string opener at %d:%d but the input there reads %q", where, t.Line, t.Position, trunc(at)),
			}
		}
	}
	return nil
}

func tokType(t token.Token) string {
	if t.Type == "" {
		return "<empty>"
	}
	return string(t.Type)
}

func trunc(s string) string {
	if len(s) > 40 {
		return s[:40] + "…"
	}
	return s
}

func budget(n int) int64 { return 200_000 + 20_000*int64(n) }

func stack() string { return string(debug.Stack()) }

// innermostParserFrame names the innermost frame of package parser (else lexer) in a stack dump.
func innermostFrame(st string) string {
	var lex string
	for _, l := range strings.Split(st, "\n") {
		if !strings.HasPrefix(l, "github.com/ysugimoto/falco/v2/") {
			continue
		}
		l = strings.TrimPrefix(l, "github.com/ysugimoto/falco/v2/")
		if j := strings.LastIndex(l, "("); j > 0 {
			l = l[:j]
		}
		if strings.HasPrefix(l, "parser.") {
			return l
		}
		if strings.HasPrefix(l, "lexer.") && lex == "" {
			lex = l
		}
	}
	if lex != "" {
		return lex
	}
	return "?"
}

func run(c Case) engine.Result {
	m := newLineModel(c.Src)
	res := engine.Result{NonTrivial: len(c.Src) >= 2, Outcome: ""}
	add := func(f *engine.Finding) {
		if f == nil {
			return
		}
		for _, g := range res.Findings {
			if g.Class == f.Class {
				return
			}
		}
		res.Findings = append(res.Findings, *f)
	}
	// bare lexer to EOF
	var site string
	f := guardedSite(len(c.Src), "lexer", &site, func() {
		lx := lexer.NewFromString(c.Src)
		for i := 0; ; i++ {
			t := lx.NextToken()
			if fd := checkToken(m, t, "lexer"); fd != nil {
				add(fd)
			}
			if t.Type == token.EOF {
				break
			}
		}
	})
	add(f)
	outs := []string{}
	type entry struct {
		name string
		call func(p *parser.Parser) error
	}
	for _, e := range []entry{
		{"ParseVCL", func(p *parser.Parser) error { _, err := p.ParseVCL(); return err }},
		{"ParseSnippetVCL", func(p *parser.Parser) error { _, err := p.ParseSnippetVCL(); return err }},
		{"ParseVCLOrSnippet", func(p *parser.Parser) error { _, err := p.ParseVCLOrSnippet(); return err }},
	} {
		var err error
		fd := guardedSite(len(c.Src), e.name, &site, func() {
			p := parser.New(lexer.NewFromString(c.Src))
			err = e.call(p)
		})
		if fd != nil {
			add(fd)
			outs = append(outs, "crash")
			continue
		}
		if err == nil {
			outs = append(outs, "tree")
			continue
		}
		pe, ok := errors.Cause(err).(*parser.ParseError)
		if !ok {
			add(&engine.Finding{
				Class: e.name + "|unlocated-error|" + errShape(err),
				What:  fmt.Sprintf("%s returned an error that is not a located parse error: %s", e.name, trunc(err.Error())),
			})
			outs = append(outs, "plain-error")
			continue
		}
		outs = append(outs, "parse-error")
		if fd := checkToken(m, pe.Token, e.name+"-error"); fd != nil {
			// the class of an error location names the message shape too
			fd.Class += "|" + msgShape(pe.Message)
			add(fd)
		}
	}
	res.Outcome = strings.Join(outs, ",")
	return res
}

func errShape(err error) string {
	s := err.Error()
	for i, r := range s {
		if r >= '0' && r <= '9' || r == '"' || r == '`' {
			return s[:i]
		}
	}
	return trunc(s)
}

func msgShape(s string) string {
	for i, r := range s {
		if r == '"' || r == '`' || r == ':' {
			return strings.TrimSpace(s[:i])
		}
	}
	return trunc(s)
}

func guardedSite(n int, entry string, site *string, f func()) (fd *engine.Finding) {
	defer func() {
		fuel.Disarm()
		if r := recover(); r != nil {
			msg := fmt.Sprint(r)
			if strings.HasPrefix(msg, fuel.Sentinel) {
				fd = &engine.Finding{Class: entry + "|nontermination@" + innermostFrame(stack()), What: fmt.Sprintf("%s does not terminate within the fuel budget (%d ticks for %d bytes)", entry, budget(n), n)}
				return
			}
			fd = &engine.Finding{Class: entry + "|panic@" + engine.PanicSite(stack()), What: fmt.Sprintf("%s panics: %s", entry, trunc(msg)), Detail: stack()}
		}
	}()
	fuel.Arm(budget(n))
	f()
	return nil
}

func init() {
	engine.Register(engine.Spec[Case]{
		ID:    "C01",
		Level: "exploration",
		Rule: "complete enumeration of (1) all byte strings up to length L over a 41-symbol alphabet with one representative per lexer byte class, (2) all token strings up to length K+1 over a 122-lexeme token alphabet, (3) 69 parser-state skeleton holes x all token strings up to length H (and truncated there), (4) every token-boundary prefix, single-token deletion and single-token substitution of every example VCL file; each input goes through the bare lexer, ParseVCL, ParseSnippetVCL and ParseVCLOrSnippet under a fuel budget; non-trivial = input of at least 2 bytes; distinct = distinct input text",
		Gen:  gen,
		Key:  func(c Case) string { return c.Src },
		Run:  run,
		Assumptions: []string{
			"non-termination is decided by a deterministic fuel budget (200000 + 20000 ticks per input byte, a tick per function entry and loop iteration of lexer/parser/token/ast), more than 100x the largest count on terminating inputs",
			"a position is inside the input when 1<=line<=#lines and 1<=column<=runes(line including its newline)+1",
			"token text is compared only for token kinds whose literal is verbatim source text",
		},
	})
}
