#!/usr/bin/env python3
"""Regenerates /verif/MANIFEST.json from the table below (keeps it valid at all times)."""
import json, collections
props = [json.loads(l) for l in open('/verif/properties.jsonl')]
ids = [p['id'] for p in props]

# id -> (category, technique, level text, level note, design_ref)
CHECKS = collections.OrderedDict()
def chk(i, cat, tech, text, note, ref=None):
    CHECKS[i] = dict(cat=cat, tech=tech, text=text, note=note, ref=ref or ('§4 ' + i))

chk('C13', 'exploration',
    'bounded-exhaustive enumeration of probe statements on the real interpreter with a frame-condition oracle',
    'Every probe statement of a stated alphabet (all 15 assignment operators x every pool target x typed expressions of depth<=1 quick / <=2 thorough, bare conditions, log, fresh-local assignment, copy-then-modify histories, nested and parameterised calls, in 5 scopes) is executed on the real interpreter between two snapshots of the whole variable pool; any change outside the named target is a violation. Complete within the alphabet, nothing sampled.',
    'Trusts: Go toolchain; the snapshot is taken through VCL log statements, i.e. the interpreter\'s own read path; statements refused with a runtime error are outside the property.')

chk('C01', 'exploration',
    'bounded-exhaustive enumeration of inputs through the real lexer and the three parser entry points under a deterministic fuel budget',
    'All byte strings up to length 3 (quick) / 4 (thorough) over a 33-symbol alphabet with one representative per lexer byte class, all token strings up to length 3 over a 117-lexeme alphabet (4 over a 42-lexeme core, thorough), 69 parser-state skeleton holes x all token strings up to length 2 (3 core, thorough) also truncated there, and every token-boundary prefix / single-token deletion / single-token substitution of the example corpus are lexed and parsed as VCL, as snippet and by ParseVCLOrSnippet. Oracle: no panic, no fuel exhaustion (non-termination), result is a tree or a *ParseError, every token and error token is located inside the input and (for verbatim token kinds) the input at that position reads the token text.',
    'Trusts: Go toolchain; the fuel instrumentation (function-entry and loop-body ticks injected by mc/cmd/instr through go build -overlay); inputs outside the alphabets and longer than the bound are not covered.')

chk('C02', 'exploration',
    'bounded-exhaustive enumeration of grammar derivations printed by an independent printer; oracle parse(print(t)) == t',
    'Every expression tree up to depth 2 over all operators (every outer/left/right operator triple; thorough: every atom at every leaf, depth-3 spines), printed with minimal and with full parentheses from the documented precedence table in 12 expression contexts and 3 layouts, a literal table (hex/exponent/INT64 boundary/escapes/long strings) and every statement and declaration derivation within 2 (quick) / 3 (thorough) deviations of its default form is parsed by the real parser and compared structurally with the intended tree (identifiers, operators, literal values, order, grouping).',
    'Trusts: the independent printer and intended-tree generator (mc/gen), written from docs/parser.md and the property text; unparenthesised chains of one associative operator are compared flattened.')

NOT_YET = {i: 'check not built yet in this session (design in DESIGN.md §4); will be claimed once its command exists' for i in ids if i not in CHECKS}

m = {
 'version': 1,
 'setup_cmd': 'bin/check --warm',
 'hooks': {
   'guard': 'verif',
   'enable': 'none needed: instrumentation is generated from the current /repo tree at check time and injected with `go build -overlay` (virtual packages under zzverif/), so /repo carries no hook code; the tag `verif` is reserved and unused',
   'baseline_off_cmd': 'bin/repotest /repo ./...',
   'source_commits': [],
   'add_only': True,
 },
 'engines': [
   {'name': 'choice+shard', 'path': 'mc/engine', 'serves_properties': list(CHECKS.keys()),
    'kind_free_text': 'stateless deviation-bounded explorer + sharded exhaustive case runner with crash attribution, class keys, known-finding classification, replay files'},
 ],
 'checks': [],
 'not_applicable': [{'property_id': i, 'reason': r} for i, r in NOT_YET.items()],
 'notes': 'All checks rebuild the vf driver from /repo\'s working tree (harness module with replace => /repo). known_findings.json lists recorded/fixed defects.',
}
for i, c in CHECKS.items():
    m['checks'].append({
      'property_id': i,
      'quick_cmd': f'bin/check {i} quick',
      'thorough_cmd': f'bin/check {i} thorough',
      'evidence_file': f'/verif/evidence/{i}.json',
      'replay_cmd_template': 'bin/check replay {path}',
      'engine': 'choice+shard',
      'level_claimed': {'category': c['cat'], 'text': c['text'], 'design_ref': c['ref']},
      'level_note': c['note'],
      'technique': c['tech'],
    })
json.dump(m, open('/verif/MANIFEST.json', 'w'), indent=1)
print('checks:', len(m['checks']), 'not_applicable:', len(m['not_applicable']))
