#!/usr/bin/env python3
"""Regenerates /verif/MANIFEST.json from the table below (keeps it valid at all times)."""
import json, collections
props = [json.loads(l) for l in open('/verif/properties.jsonl')]
ids = [p['id'] for p in props]

# id -> (category, technique, level text, level note, design_ref)
CHECKS = collections.OrderedDict()
def chk(i, cat, tech, text, note, ref=None):
    CHECKS[i] = dict(cat=cat, tech=tech, text=text, note=note, ref=ref or ('§4 ' + i))

chk('C13', 'exploration',
    'bounded-exhaustive enumeration of probe statements on the real interpreter with a frame-condition oracle',
    'Every probe statement of a stated alphabet (all 15 assignment operators x every pool target x typed expressions of depth<=1 quick / <=2 thorough, bare conditions, log, fresh-local assignment, copy-then-modify histories, nested and parameterised calls, in 5 scopes) is executed on the real interpreter between two snapshots of the whole variable pool; any change outside the named target is a violation. Complete within the alphabet, nothing sampled.',
    'Trusts: Go toolchain; the snapshot is taken through VCL log statements, i.e. the interpreter\'s own read path; statements refused with a runtime error are outside the property.')

chk('C01', 'exploration',
    'bounded-exhaustive enumeration of inputs through the real lexer and the three parser entry points under a deterministic fuel budget',
    'All byte strings up to length 3 (quick) / 4 (thorough) over a 33-symbol alphabet with one representative per lexer byte class, all token strings up to length 3 over a 117-lexeme alphabet (4 over a 42-lexeme core, thorough), 69 parser-state skeleton holes x all token strings up to length 2 (3 core, thorough) also truncated there, and every token-boundary prefix / single-token deletion / single-token substitution of the example corpus are lexed and parsed as VCL, as snippet and by ParseVCLOrSnippet. Oracle: no panic, no fuel exhaustion (non-termination), result is a tree or a *ParseError, every token and error token is located inside the input and (for verbatim token kinds) the input at that position reads the token text.',
    'Trusts: Go toolchain; the fuel instrumentation (function-entry and loop-body ticks injected by mc/cmd/instr through go build -overlay); inputs outside the alphabets and longer than the bound are not covered.')

chk('C02', 'exploration',
    'bounded-exhaustive enumeration of grammar derivations printed by an independent printer; oracle parse(print(t)) == t',
    'Every expression tree up to depth 2 over all operators (every outer/left/right operator triple; thorough: every atom at every leaf, depth-3 spines), printed with minimal and with full parentheses from the documented precedence table in 12 expression contexts and 3 layouts, a literal table (hex/exponent/INT64 boundary/escapes/long strings) and every statement and declaration derivation within 2 (quick) / 3 (thorough) deviations of its default form is parsed by the real parser and compared structurally with the intended tree (identifiers, operators, literal values, order, grouping).',
    'Trusts: the independent printer and intended-tree generator (mc/gen), written from docs/parser.md and the property text; unparenthesised chains of one associative operator are compared flattened.')

FMT = 'Programs: every statement/declaration derivation within 2 (quick) / 3 (thorough) deviations of its default form, 4 wide programs that force wrapping, all 66 example files. Configurations: default, all 23 single deviations over the documented option domains for every program, all pairs (quick) / triples (thorough) for programs within 1 deviation and pairs for the example files, plus the all-options corner. Comment decorations: a #, // or /* */ comment at every documented placeholder of every program within 1 deviation, every pair of placeholders (thorough: triples), all placeholders at once, and falco annotations / #FASTLY macros at leading slots, under 9 comment-relevant configurations. About 1.0e6 (program, configuration) cases in the quick tier, all run through the real parser and formatter. '
chk('C03', 'exploration',
    'bounded-exhaustive enumeration of programs x formatter configurations; oracle: tree(parse(format(p))) == tree(p) modulo the documented rewrites',
    FMT + 'Oracle: the formatter returns text, the text parses, and its tree equals the original tree in every declaration, statement, operator, identifier, argument and literal value, after applying exactly the rewrites the enabled options document.',
    'Trusts: mc/gen (generator, printer, reflection-based tree dump); tree comparison ignores positions/comments, the Explicit flag of +, HasComma and HasParenthesis; else-if keyword, remove/unset and property/declaration order are normalised only when the corresponding option is on. 35 known-finding classes (one root cause for 34 of them) are listed in known_findings.json.', '§4 C03')
chk('C14', 'exploration',
    'bounded-exhaustive enumeration of programs x formatter configurations; oracle: format(format(p)) == format(p) byte for byte',
    FMT + 'Oracle: F(P(F(P(s)))) == F(P(s)) byte for byte.',
    'Cases whose first output does not parse belong to C03 and are skipped here. Known findings listed in known_findings.json.', '§4 C03/C14/C15')
chk('C15', 'exploration',
    'bounded-exhaustive enumeration of comment placements x configurations; oracle: comment token sequence of the output equals that of the input',
    FMT + 'Oracle: the sequence of COMMENT tokens (falco lexer) of the output equals that of the input — each once, same text up to the line-comment marker when comment_style is set, same relative order (multiset only when a sort option is on).',
    'Trusts: the placeholder table transcribed from docs/parser.md in mc/gen/print.go. Known findings (placeholders whose comments are dropped; line comments at inline placeholders) listed in known_findings.json.', '§4 C03/C14/C15')

chk('C19', 'exploration',
    'bounded-exhaustive enumeration: round-trip of all grammar derivations; all truncations / bit flips / substitutions / splices of valid encodings through the real decoder under fuel',
    'Round trip: every statement/declaration derivation within 2 (quick) / 3 (thorough) deviations, the literal table, strings of boundary lengths (0..70000) and a >64 KiB subroutine; each top-level statement, each body statement (Encode) and the whole file (Encodes) is encoded, decoded and compared field by field. Totality: for one small encoding per node kind every truncation, single-bit flip, boundary/frame-type byte substitution, one-byte deletion/insertion, pairwise splices and all byte strings up to length 3 over frame types are decoded under a fuel budget; the decoder must return statements or an error.',
    'Trusts: mc/gen tree dump; fuel instrumentation of ast/codec. Comments, positions and presentational flags are excepted as the property states. Known: 16-bit frame length (>=64 KiB strings), subroutine parameters not encoded.')

chk('C09', 'exploration',
    'bounded-exhaustive enumeration of decoration placements; differential oracle against the undecorated program on the real linter and simulator',
    'For every statement/declaration derivation within 1 deviation (lint half) and 3 executable lifecycle programs run through ServeHTTP with a stub backend (simulator half, 3 requests incl. restart, error and a warm-cache hit), each of 6 decorations (/* c */, # c, // c, blank lines, tab+spaces, newline) is inserted into every gap between two consecutive tokens (thorough: all pairs of gaps within a statement). A variant at a documented comment placeholder must parse; elsewhere unparseable variants are skipped. Oracle: the multiset of (rule, severity, message) and the fatal error equal the base program\'s; flows, logs, restarts, response status/headers/body size are identical.',
    'Trusts: mc/gen token/placeholder table; Date/Age/X-Timer headers and elapsed times are not compared.')

chk('C12', 'exploration',
    'bounded-exhaustive enumeration of ignore-comment placements; differential oracle against the program without them',
    '12 base programs with several lint errors (different rules, nested in if/else and bare blocks, first and last statement of a block, across two subroutines, after the covered region) x every placement of one ignore comment (next-line before every statement incl. compound ones, trailing on every simple statement, start/end around every contiguous statement range of every block with the end before the next statement or as the last comment of the block) x {no rule list, a covered rule, an uncovered rule, two rules} x {//, #, /* */}, and every pair of placements (thorough: every triple). Oracle: diagnostics(with) = diagnostics(without) minus those located on covered lines (of a listed rule), as multisets of (severity, rule, message).',
    'Trusts: lintx driver; coverage is computed on line spans of a one-statement-per-line layout; ranges follow the sequential semantics documented in docs/linter.md (an unqualified falco-ignore-end re-enables all rules).')

chk('C11', 'exploration',
    'bounded-exhaustive enumeration of programs and include graphs under fuel; exhaustive exploration of map iteration orders through a source-level seam; all declaration permutations',
    'Totality: every derivation within 2 (quick) / 3 (thorough) deviations, every single-site ill-typed atom mutant of every derivation within 1 deviation and all 8192 include graphs over {main, a, b} x {a, b, itself, missing} x {root level, inside a subroutine} are linted twice under a fuel budget (no panic, no non-termination, identical diagnostics). Determinism: every range-over-map loop of linter and linter/context is rewritten at build time (go/types) to iterate through a seam; for 20 programs with 2-3 entities per map and cyclic call graphs every permutation at every dynamic loop execution with at most 2 executions deviating from natural order is explored and must give the identical diagnostic multiset incl. locations. All 24 declaration orders of 6 programs give the same diagnostics apart from locations.',
    'Trusts: instrumenter (fuel, map-order seam) - falco\'s own tests pass through the overlay; lintx driver with an in-memory resolver.')

chk('C17', 'model_checking',
    'explicit-state exploration of the real header objects: all operation histories up to a depth, invariants on every transition, differential spelling twin',
    'Every history of up to 3 operations on req and 2 on bereq/beresp/obj/resp (quick; thorough: 3 everywhere, 4 on req) over 42 operations (set with empty / not-set / multi-line / sub-field-carrying values, set and unset of sub-fields, add, unset, on the names Foo, fOO, Bar) is executed on a fresh interpreter through the real statement path with a full read snapshot after every step. Invariants on every transition: read-after-set, not-set-after-unset for every spelling, frame conditions for every other header and every other sub-field; on every final state the history with Foo/fOO swapped must give the same reads. States (distinct read vectors), transitions and traces are counted by the run; every explored trace is an implementation trace.',
    'Trusts: the observation through VCL log/if reads; histories are not pruned by state, so no abstraction can hide a future.')

chk('C08', 'exploration',
    'bounded-exhaustive enumeration of boundary programs and requests on the fuel-instrumented simulator; crash/hang oracle',
    'Complete products: 15 assignment operators x 7 target types x 7 operand types x boundary operands (0, +-1, INT64 min/max, 2^31, 63/64/65, NaN/inf, FLOAT_MAX/MIN, empty/not-set strings, epoch-boundary times) x {literal, variable} x 3 initial values; every built-in function of builtin.yml x every signature x boundary arguments per parameter type (full product up to 3 parameters); every statement derivation in all 9 scopes; recursion, restart in every scope, error-in-error, goto loops, all self/mutual/missing include shapes through ServeHTTP; the full lifecycle reading every readable predefined variable for 5 methods x 4 paths x 3 queries x 5 header sets x 1-3 requests; the test runner on 7 files. Oracle: returns a response or a reported error - no panic, no process death, no fuel exhaustion.',
    'Trusts: fuel instrumentation (2e7 ticks per case); the stub backend transport; each worker process attributes a fatal crash to the journalled case.')

chk('C05', 'exploration',
    'complete enumeration of two finite products of (operator/variable/function/statement x type/scope) cells, each instantiated as a program that is linted and executed',
    'Product A: 15 assignment operators x 10 target kinds x 27 operands and 8 comparison operators x 27 x 27 operands (9 types x literal/local/predefined). Product B: every entry of predefined.yml x {get, set, set-of-read-only, unset}, every entry of builtin.yml x every signature, and the scope-restricted statements (restart, error, esi, synthetic, synthetic.base64, 9 return actions) x the 9 scopes and all 36 two-scope annotations (about 81000 cells). Oracle 1: the linter reports no ERROR on the use line iff the YAML tables (read from /repo at run time) allow the cell - for a multi-scope subroutine iff every scope allows it; for product A iff the committed matrix allows it. Oracle 2: every accepted cell executes in each of its scopes on the real interpreter without a crash and without an error of the contract classes.',
    'Trusts: YAML loader; mc/ref/data/assigntable.tsv is a reviewed snapshot of the pinned linter matrix because the Fastly assignment type table (external spreadsheet) is unavailable offline - for product A the check decides drift from that snapshot plus accepted=>executes. 70 known-finding classes (variables the simulator does not implement, literal on the left of ==) are listed in known_findings.json.')

chk('C07', 'exploration',
    'bounded-exhaustive enumeration of core-language programs compared with an independent reference evaluator; duality laws as a differential oracle on the implementation',
    'Every assignment operator x operand pair over boundary INTEGER/FLOAT/RTIME/BOOL values x {literal, variable} where the reference defines the result; declaration defaults and STRING renderings; every comparison of 21 typed atoms (set / not-set / empty strings, headers, literals) where defined, regex matches in the RE2/PCRE common subset, truthiness, prefix !, &&/||/! combinations; each comparison also in its dual form; every truth assignment of if / else-if / else chains up to 3 conditions; every switch arrangement of up to 3 (quick) / 4 (thorough) cases x fallthrough flags x default position over 5 controls; every ACL of up to 3 (quick) / 4 (thorough) entries from 62 plain/negated prefixes of a 4-bit IPv4 sub-space x 18 addresses (and a 3-bit IPv6 sub-space) against a longest-prefix reference. All run through the real interpreter; observables are log lines.',
    'Trusts: the reference evaluator in mc/checks/c07 (written from the Fastly documentation; refuses what the documentation does not define - see DESIGN appendix A).')

chk('C06', 'model_checking',
    'TLA+ model checked by TLC (all reachable states) + conformance: behaviours regenerated from TLC\'s dumped state graph are replayed on the real interpreter',
    'tla/Lifecycle.tla states the documented Fastly lifecycle for up to 3 requests over 2 URLs with restarts <= 3 and cache store/lookup; TLC checks the invariants (restart bound, vcl_log at most once and last, hit iff stored, first request never hits, failed requests do not log) on all 3353 reachable states. The dumped graph is parsed; every behaviour with at most 3 (quick) / 5 (thorough) non-default choices over 3 requests (5 / 7 for single requests) plus one behaviour through every remaining edge (all 10296 edges covered) is compiled to a VCL program and a request history, run through ServeHTTP on a fresh interpreter and compared step by step (subroutines executed, restarts, reported error, X-Cache, cached flag). All 216 three-request histories over rate-counter / penalty-box operations are compared with a map model.',
    'Trusts: TLC; the model itself (written from the Fastly documentation; deliver_stale, expiry and purge are outside it); the dot-dump parser (node count is checked against TLC\'s distinct-state count).', '§4 C06')

chk('C04', 'exploration',
    'complete enumeration of program situations x output modes x verbosities x rule overrides on the real binary; library-computed reference verdict and cross-mode differential',
    '22 program situations x .falco.yml rule overrides (none; every fired rule x every level in both letter cases; all level pairs for two fired rules; an unrelated rule) - 500 cells - are each run through the real `falco lint` binary built from the current tree under all 6 combinations {plain, -json} x {default, -v, -vv} (3000 process runs). Oracles: exit status and error/warning/info counts equal the verdict computed through the library (parse main and includes, lint, apply overrides and ignore filtering); they are identical across the 6 combinations; the -json document agrees with the summary line.',
    'Trusts: the library-level reference (parser + linter through lintx) and the regular expression that reads the summary line.')

chk('C16', 'fault_enumeration',
    'exhaustive fault and crash-point enumeration of the recorded syscall history of the real binary (strace inject / SIGKILL / RLIMIT_FSIZE)',
    'For 9 file contents (two of them also through a symbolic link) the syscall history of the real `falco fmt -w FILE` is recorded under strace; every invocation of every file-related syscall of that history is re-run once per errno of its menu (fault) and once with SIGKILL on entry (every crash prefix), plus every RLIMIT_FSIZE from 0 to output size + 8, an unopenable target and a directory in which nothing can be created; two-run histories (a run killed at every directory / temporary-file call, the content replaced, a normal second run) and invocations with 2-3 targets (no fault, and killed at every rename) - about 3000 process runs in the quick tier. After each run the file must hold its original bytes or exactly what `falco fmt FILE` prints; a non-zero exit implies the original bytes, a zero exit the formatted text.',
    'Trusts: strace fault injection (the run\'s own trace is inspected for the (INJECTED) marker), prlimit, kernel file semantics. Crash model: process death between two syscalls; power-loss reordering of unsynced blocks is out of scope.', '§4 C16')

chk('C20', 'exploration',
    'bounded-exhaustive enumeration of resource sets through both entry paths (stub API fetcher, generated Terraform plan JSON); oracle: generated VCL parses and declares exactly the resources',
    'Every string of length <= 2 (quick) / 3 (thorough) over a 12-symbol alphabet of troublesome characters plus URL-encoded and quote/brace specials in every free-text field, every pair of fields, every 1-2 character insertion of non-identifier characters into backend names (also as director members) and director names, and structural variants (0/1/3 items, IPv4/IPv6 x negated x masks, directors with 0-2 members x types x retries absent/set) - about 16800 resource sets - are rendered by the real snippet package through a stub Fetcher and through terraform.ParseStdin. Oracle: no crash or refusal, every generated item parses, and the parsed tables / acls / backends / directors have exactly the key, value (after escape decoding), address, mask, negation and membership of the resources; a director member names the backend as declared.',
    'Trusts: the stub fetcher and the Terraform plan JSON builder in mc/checks/c20; response objects and header rules are only required to parse.')

chk('C10', 'exploration',
    'bounded-exhaustive enumeration of test files (ordered selections from a verdict/interaction alphabet) x mains x coverage on the real test runner, with constructed verdicts, solo-run differential and coverage on/off differential; real binary for exit status',
    'seq: about 100 alphabet items with constructed verdicts (every assert.* holding / failing, state assertions after testing.call_subroutine, runtime-error shapes, assertion sequences, assertions under control flow, @skip, @suite, multi-@scope, scope by suffix, writers of every tester-visible piece of state, readers that log what they see, describe groups) - every item alone, every ordered pair, every ordered triple of the interaction alphabet, the whole alphabet forwards and backwards, x 4 mains x coverage off/on, run in-process with the options of `falco test`. Oracles: constructed verdict and error kind of every case, counters (skips, fails>0 iff a failed case, asserts=passes+fails), and for every ungrouped test equality of verdict/error/logs with its solo run without coverage. flow: 16 container shapes x arms from 35 leaf statements with at most 1 (quick) / 2 (thorough) arms deviating x every input vector, each run with and without coverage - observations must be equal. cli: the real binary in text and -json mode x coverage: exit status, printed counts, JSON verdicts and summary.',
    'Trusts: the constructed verdicts in mc/checks/c10/items.go (VCL and assertion semantics as documented in docs/testing.md); normalisation of line numbers in error/log texts. 2 known-finding classes (if() condition evaluated twice under coverage).')

chk('C18', 'model_checking',
    'stateless exploration of thread interleavings of the real code under a controlled cooperative scheduler (preemption-bounded DFS over choice sequences), vector-clock happens-before race check, serial-order reference computed on the same code; auxiliary free-running -race pass',
    'The instrumenter (go build -overlay, nothing in /repo) rewrites sync.Mutex/RWMutex/WaitGroup and `go` statements of interpreter/... and linter to the scheduler shim, puts scheduling points at the entry of every lifecycle / statement / shared-state function and inside every read-modify-write statement on a field or package variable. sim: every multiset of 2 (<=2 preemptions; thorough 3) and 3 (<=1; thorough 2; thorough also 4 requests, <=1) request kinds {two cacheable URLs, pass, error, restart, penalty box} with distinct markers is sent concurrently into ONE Interpreter, followed by 3 sequential probe requests; every schedule within the bound is executed and the vector (responses: flow, logs, headers, restarts, cached; probes: cache contents, rate counter, penalty box) must equal the vector of some one-at-a-time order on a fresh instance. plugin: 2-4 stub plugin processes on one statement (0/1/2 diagnostics, failing, garbage); on every schedule the reported diagnostics are exactly what the plugins returned. On every execution: no deadlock, no panic, no conflicting accesses at a read-modify-write site unordered by happens-before. Evidence reports schedules explored, choice points, scheduling points, threads, distinct outcomes per scenario.',
    'Trusts: the scheduler shim (one managed goroutine runs at a time; replay of the same choice sequence is checked to be deterministic); sequential consistency; code between two scheduling points is atomic. Unsynchronised accesses that are not read-modify-write statements are decided by their effect on the responses and, as auxiliary evidence only, by Go\'s race detector on a free-running build of the same scenario bodies (sampling, 15 repetitions per scenario).')


# what the two seeded rounds added to each check's enumeration (appended to the level text)
ADDENDA = {
 'C01': ' Extended after seeding: byte alphabet of 41 symbols incl. one representative per class of Go\'s unicode package (Nd digit, full-width digit, letter number, no-break space, line separator, BOM, full-width letter).',
 'C02': ' Extended after seeding: every non-default atom at every leaf of every depth-2 shape in the quick tier; literal non-ASCII strings and 0X hex floats in the literal table; the same label text under == and ~ in one switch.',
 'C03': ' Extended after seeding (shared grammar): long strings with runs of empty lines, nested / negated groups, ACL masks /0 /32 /128, functional return with parentheses, an empty-line decoration at every leading slot, 108 else-if programs sweeping the line end through columns 100-135. Third round: an empty line before / after / around a comment at every placeholder, every placeholder filled at once (with and without empty lines), 8 more options crossed with single comments, placeholders around the arguments of a call inside an expression, two long strings on one line of a condition, doubly escaped %2541 in table entries and switch controls. Fourth round: line comments whose text looks like an opener of a block comment / long string; a comment plus a later comment separated from its statement by an empty line.',
 'C04': ' Extended after seeding: 26 situations (two includes in both orders, nested include), an include-reachability parse in the reference that does not go through the linter, and -generated / -generated -json as modes. Third round: literals at and beyond the range of their type. Fourth round: single surplus token at the end of a file, verdict by construction for syntax-error situations.',
 'C06': ' Extended after seeding: every compiled vcl_hash appends req.url and req.http.host to req.hash (the key must be derived afresh on every attempt). Extended after seeding (fourth round): every history of up to 3 (4) requests whose restarted attempt may look up another URL, against a map model of the cache.',
 'C07': ' Extended after seeding: a wide-mask ACL family (/0, /1, byte-boundary masks); a reference-free position law (22 conditions x 6 positions must agree); 432 mixed-type arithmetic cells compared with a committed snapshot of the pinned tree (decides drift only). Third round: += as the first write to a never-assigned STRING. Fourth round: 180 shift / rotate cells with negative operands and counts beyond 63 in the pinned snapshot.',
 'C08': ' Extended after seeding: non-recursive call graphs with exponential expansion; header values malformed as sub-field lists on every object and in request headers; 7 director types x member shapes x properties x selection place x return state. Third round: concatenations with signed / prefixed terms in every position x 7 contexts; the symmetric cipher built-ins with well-formed keys and IVs (cipher x mode x padding x length around the block size); director weights around 1000. Fourth round: programs refused at initialisation asked three times; parked-body detection through the goroutine dump for requests that block forever.',
 'C09': ' Extended after seeding: 10 decorations (incl. /** c **/, /* c **/, /**/, multi-line), a 4th executable program with ID-typed arguments and directors, programs the parser rejects, annotated programs with a comment next to the annotation, a sign-gap family. Third round: carriage return / CRLF decorations and whole files with CRLF line ends. Fourth round: comment text that looks like code; programs whose diagnostics depend on counting capture groups.',
 'C10': ' Extended after seeding: set-but-empty inputs, a shared fixture with merge-then-overwrite writer and merging reader, nested-if() leaves that read the capture inside the called subroutine (38 leaves).',
 'C11': ' Extended after seeding: functional subroutines with 0-2 parameters called with 0-3 arguments; 9 permuted programs incl. per-subroutine goto labels and locals. Third round: subroutines whose scope is the union of 3-6 callers\' scopes; 51 regex literals ending inside a group / class / quantifier / escape x 8 contexts; maps with more than 4 keys iterated in 2n orders. Fourth round: capture-group state under permutations; includes inside an if block (12288 graphs).',
 'C12': ' Extended after seeding: 15 base programs (switch cases, late diagnostics, empty blocks), stacked next-line comments, ranges ending inside a later empty block. Third round: directives on break; / fallthrough;, the same unused local name in two subroutines. Fourth round: CRLF line ends and white space behind the directive.',
 'C13': ' Extended after seeding: unary operators composed with groups and if() in the quick tier, calls from a caller without capture groups, TIME +/- RTIME inside concatenations, declare-with-initialiser histories. Third round: REGEX locals and parameters observed through matches; a never-assigned STRING local and obj.response in the pool. Fourth round: a count beyond 63 in the pool.',
 'C14': ' (Shares the extended grammar and decorations of C03.) Third round: see C03; the all-placeholders case with empty lines uses block comments at inline placeholders.',
 'C15': ' (Shares the extended grammar and decorations of C03; decorated programs are also run with return_statement_parenthesis=false.) Third round: see C03; placeholders around the arguments of a call inside an expression are left out (not in docs/parser.md\'s list).',
 'C17': ' Extended after seeding: sub-field values with separators, values starting / ending with a line break, keys that differ in one punctuation character, cross-object histories (an operation on one object must not move another object\'s reads). Third round: set H += V histories (append law); sub-field keys that differ in letter case only. Fourth round: the objects in the other scopes that may write them.',
 'C18': ' Extended after seeding: channel receive / send / close are owned by the scheduler (instrumenter rewrite, happens-before through channels); a progress backstop abandons an execution blocked in anything else; the quick tier caps a scenario at 6000 executions, the thorough tier at 60000 (reported as not exhaustive); plugins on a compound statement with an ignored nested statement. Third round: a response whose body carries an ESI include next to every other request kind; a plugin that is not installed (first / middle / last); a per-worker soft deadline (15 min quick, 25 min thorough: scenarios left are reported as a cap). Fourth round: a FASTLYPURGE request next to every other request kind.',
 'C19': ' Extended after seeding: expression shapes x 8 contexts incl. if() with 2-3 composite operands; programs of 4-7 kB across the decoder\'s read-buffer boundary at every alignment.',
 'C20': ' Extended after seeding: 4 Terraform module layouts (items / service in child and grandchild modules); backend names that differ only in the length of a run of non-identifier characters, with a distinctness oracle. Third round: the real remote.FastlyApiFetcher behind a fake Fastly API built from the case; Terraform plans with two services generated one after the other on one fetcher. Fourth round: comment and statement delimiters (*/ /* // CR TAB) as field content.',
 'C05': ' Extended after seeding (third round): signed literals, signed locals and signed predefined variables as operands. Fourth round: disallowed reads repeated behind a legal use in another subroutine.',
 'C16': ' Extended after seeding: two-run histories, 2-3 targets in one invocation, and (third round) the command-line target being a symbolic link. Fourth round: a file full of percent signs.',
}
NOT_YET = {i: 'check not built yet in this session (design in DESIGN.md §4); will be claimed once its command exists' for i in ids if i not in CHECKS}

m = {
 'version': 1,
 'setup_cmd': 'bin/check --warm',
 'hooks': {
   'guard': 'verif',
   'enable': 'none needed: instrumentation is generated from the current /repo tree at check time and injected with `go build -overlay` (virtual packages under zzverif/), so /repo carries no hook code; the tag `verif` is reserved and unused',
   'baseline_off_cmd': 'bin/repotest /repo ./...',
   'source_commits': [],
   'add_only': True,
 },
 'engines': [
   {'name': 'tlc+conformance', 'path': 'tla', 'serves_properties': ['C06'], 'kind_free_text': 'TLA+ model checked by TLC; dumped state graph replayed against the implementation by mc/checks/c06'},
   {'name': 'faultfs', 'path': 'mc/checks/c16', 'serves_properties': ['C16'], 'kind_free_text': 'syscall-level fault / crash-point enumeration on the real binary under strace and prlimit'},
   {'name': 'sched', 'path': 'mc/shim/vsched + mc/sched + mc/cmd/instr', 'serves_properties': ['C18'], 'kind_free_text': 'controlled cooperative scheduler injected by source rewriting (sync, go statements, read-modify-write splits, function-entry points) with a preemption-bounded stateless DFS and vector-clock race check'},
   {'name': 'choice+shard', 'path': 'mc/engine', 'serves_properties': list(CHECKS.keys()),
    'kind_free_text': 'stateless deviation-bounded explorer + sharded exhaustive case runner with crash attribution, class keys, known-finding classification, replay files'},
 ],
 'checks': [],
 'not_applicable': [{'property_id': i, 'reason': r} for i, r in NOT_YET.items()],
 'notes': 'All checks rebuild the vf driver from /repo\'s working tree (harness module with replace => /repo). known_findings.json lists recorded/fixed defects.',
}
for i, c in CHECKS.items():
    m['checks'].append({
      'property_id': i,
      'quick_cmd': f'bin/check {i} quick',
      'thorough_cmd': f'bin/check {i} thorough',
      'evidence_file': f'/verif/evidence/{i}.json',
      'replay_cmd_template': 'bin/check replay {path}',
      'engine': 'choice+shard',
      'level_claimed': {'category': c['cat'], 'text': c['text'] + ADDENDA.get(i, ''), 'design_ref': c['ref']},
      'level_note': c['note'],
      'technique': c['tech'],
    })
json.dump(m, open('/verif/MANIFEST.json', 'w'), indent=1)
print('checks:', len(m['checks']), 'not_applicable:', len(m['not_applicable']))
