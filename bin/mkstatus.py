#!/usr/bin/env python3
"""fills the @Cnn@ placeholders / refreshes the counts of DESIGN.md §0.2 from evidence/<id>.json (quick) and evidence/thorough/<id>.json"""
import json, re
def n(v):
    if v >= 1e6: return '%.1f M' % (v/1e6)
    if v >= 1e4: return '%d k' % round(v/1e3)
    if v >= 1e3: return '%.1f k' % (v/1e3)
    return str(v)
def ev(path):
    try:
        d = json.load(open(path))
    except Exception:
        return None
    c = d.get('coverage', {})
    for k in ('evaluations', 'cases_evaluated', 'cases'):
        if k in c: return c[k]
    return None
s = open('/verif/DESIGN.md').read()
for i in range(1, 21):
    pid = 'C%02d' % i
    q, t = ev(f'/verif/evidence/{pid}.json'), ev(f'/verif/evidence/thorough/{pid}.json')
    txt = (n(q) if q is not None else '?') + ' / ' + (n(t) if t is not None else '?')
    s = s.replace('@%s@' % pid, '<!--%s-->%s<!--/%s-->' % (pid, txt, pid))
    s = re.sub(r'<!--%s-->.*?<!--/%s-->' % (pid, pid), '<!--%s-->%s<!--/%s-->' % (pid, txt, pid), s)
open('/verif/DESIGN.md', 'w').write(s)
print('ok')
