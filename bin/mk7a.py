import json,glob,os
rows=[]
for d in sorted(glob.glob('/verif/seeded/*/')):
    rows.append(json.load(open(d+'meta.json')))
BAR='\\|'
out=[]
out.append('## 7a. Seeded changes: what was tried and which checks catch what\n\n')
R2NOTE=True
out.append('''One hundred and forty property-breaking changes (three rounds of two per property and a fourth of one per property) were written by fresh
sub-agents that saw only the text of one property and a scratch worktree of /repo — nothing from /verif (rounds 2
to 4 were additionally told which files and triggering conditions the earlier rounds had used, and asked for others).
Each compiles and passes falco's whole unedited suite; each was confirmed by me in the author's worktree
(`bin/seedconfirm`: build, full suite, the author's demonstration with and without the change) before it was kept under
`/verif/seeded/<id>/` (`patch.diff`, `demonstration/`, the author's `description.md`, `meta.json`).
`bin/seedrun seeded/<id>/patch.diff <Cnn>` applies one to /repo under the repository lock, runs the check
without touching committed evidence and restores /repo.

First pass: **round 1 (ids …-1, …-2): 22 of 40 caught as the checks stood, 18 missed; round 2 (ids …-3,
…-4, run against the checks as strengthened after round 1): 14 of 40 caught, 26 missed; round 3 (ids …-5, …-6,
against the checks as strengthened after round 2): 18 of 40 caught, 22 missed; round 4 (ids …-7, one per property, authors
told about all six earlier changes and asked for a shape none of them needed): 6 of 20 caught, 14 missed.** With a handful of
exceptions every miss was an alphabet gap, not an oracle gap: the oracle would have fired had the
enumeration contained the shape. The exceptions: C04-1 (the reference verdict went through the code
the change was in), C07-3 / C07-4 (the reference evaluator refuses what the documentation does not
define; a reference-free law and a pinned-behaviour snapshot were added), C18-4 (the scheduler did not
own channel operations and the run hung), C11-5 (maps with more than four keys were iterated in natural
order only), C14-6 / C03 (a known-finding class that was too coarse would have masked it: the class key
now names the placeholder and the enclosing statement), C04-7 (the reference verdict went through the parser the change
was in: situations named syntax-error-… now carry a by-construction verdict), C08-7 (a deadlock burns no fuel: the
simulator check had no oracle for a request that blocks forever; a case that has not returned after 90 s is now looked at
through the goroutine dump and reported only if its body is parked on a lock / channel / wait group), C07-7 (the reference
evaluator refuses `>>=` on a negative operand; such cells are now compared with the pinned snapshot: decides drift only). The checks were extended by the *class* of shape
(not by the witness), re-run on the unchanged tree (new findings on HEAD were triaged as in §6: more `fix:`
commits and known-finding classes came out of these extensions, see below), and all kept changes are
reported on every run. One change of round 3 (C14-5) is kept as *retired*: studying it exposed the same
defect on the unchanged tree, and the repair (99f9dbe) makes the change harmless, so there is nothing left
to detect. That every round still missed half or more (the last one, whose authors knew six earlier changes per property, 70 %) says plainly what these checks
are: exhaustive *within their alphabets*, and the alphabets are where the judgement (and the
remaining risk) is. The table says, per change,
what it needs to manifest and what happened.

| id | needs to manifest | first pass | what I ran / result now |
|---|---|---|---|
''')
for m in rows:
    first={'yes':'caught','retired':'MISSED (retired)'}.get(m['caught'],'MISSED')
    ran=m['checks_run'].replace('|',BAR)
    need=m['needs_to_manifest'].replace('|',BAR)
    out.append('| %s | %s | %s | %s |\n' % (m['id'], need, first, ran))
out.append(open('/verif/bin/7a_tail.md').read())
p='/verif/DESIGN.md'
s=open(p).read()
marker='## 8. Trusted base, nondeterminism, failure modes'
assert marker in s
if '## 7a.' in s:
    a=s.index('## 7a.'); b=s.index(marker); s=s[:a]+s[b:]
s=s.replace(marker,''.join(out)+'---\n\n'+marker)
s=s.replace("See the table at the end of this section's continuation in §7a (filled from `/verif/seeded/*/meta.json`).","40 seeded changes (2 per property), all reported by the checks as they stand; 18 needed an extension of an alphabet first. Table, lessons and open observations: §7a.")
open(p,'w').write(s)
