#!/usr/bin/env python3
"""Triage helper (run by hand, never by a check): append reviewed classes from a
VERIF_DUMP_CLASSES run to known_findings.json as status=known.
usage: bin/kf_add.py <property> <dump-output-file> [regex-filter] [--note text]"""
import json, sys, re
prop, path = sys.argv[1], sys.argv[2]
flt = re.compile(sys.argv[3]) if len(sys.argv) > 3 and not sys.argv[3].startswith('--') else None
note = ''
if '--note' in sys.argv:
    note = sys.argv[sys.argv.index('--note') + 1]
kf = json.load(open('/verif/known_findings.json'))
have = {(e['property'], e['class']) for e in kf['findings']}
n = 0
for line in open(path, errors='replace'):
    if not line.startswith('CLASS\t'):
        continue
    parts = line.rstrip('\n').split('\t')
    cls, count, what, case = parts[1], parts[2], parts[3], parts[4] if len(parts) > 4 else ''
    if flt and not flt.search(cls):
        continue
    if (prop, cls) in have:
        continue
    try:
        w = json.loads(case)
        for k in ('conf', 'vec', 'decos', 'deco_labels'):
            w.pop(k, None)
    except Exception:
        w = case[:400]
    what = what.replace('\\n', ' ')
    if note:
        what = note + ' — ' + what
    kf['findings'].append({'property': prop, 'status': 'known', 'class': cls, 'what': what[:600], 'witness': w})
    n += 1
json.dump(kf, open('/verif/known_findings.json', 'w'), indent=1, ensure_ascii=False)
print('added', n)
