#!/opt/veriftools/pyvenv/bin/python
"""validates MANIFEST.json and every evidence file (both tiers) against the schemas in /root/.vp"""
import json, glob, sys, jsonschema
ok = True
jsonschema.validate(json.load(open('/verif/MANIFEST.json')), json.load(open('/root/.vp/MANIFEST.schema.json')))
sc = json.load(open('/root/.vp/EVIDENCE.schema.json'))
for f in sorted(glob.glob('/verif/evidence/*.json') + glob.glob('/verif/evidence/thorough/*.json')):
    try:
        d = json.load(open(f))
        jsonschema.validate(d, sc)
        c = d.get('coverage', {})
        print('%-36s tier=%-8s evaluations=%-9s exhaustive=%s violations=%s' % (f.replace('/verif/', ''), d.get('tier'), c.get('evaluations'), c.get('exhaustive'), d.get('violations')))
    except Exception as e:
        ok = False
        print('INVALID', f, str(e)[:200])
sys.exit(0 if ok else 1)
