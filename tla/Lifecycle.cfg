CONSTANTS
  MaxReq = 3
  MaxRestarts = 3
INIT Init
NEXT Next
INVARIANT Inv
CHECK_DEADLOCK FALSE
