---------------------------- MODULE Lifecycle ----------------------------
(* The Fastly request lifecycle as documented (fastly.com: "the VCL request   *)
(* lifecycle"), for a sequence of up to MaxReq requests to one simulator      *)
(* instance over two URLs. Written from the documentation, not from falco.    *)
(* The model has no history variable on purpose: TLC's graph stays small and  *)
(* behaviours are regenerated as paths through the dumped graph and replayed  *)
(* against the implementation (conformance).                                  *)
EXTENDS Naturals, FiniteSets

CONSTANTS MaxReq, MaxRestarts

URLs == {"u1", "u2"}

VARIABLES reqNo,     \* number of requests started so far
          url,       \* URL of the current request ("-" when idle)
          scope,     \* lifecycle subroutine about to run, or "idle"
          act,       \* the action that led to this state (makes every edge a distinct node)
          restarts,  \* restarts of the current request
          viaPass,   \* vcl_recv chose pass: no lookup, nothing is stored
          stored,    \* URLs with an unexpired cached object
          logCount,  \* how often vcl_log ran for the current request
          hitTaken,  \* the current request's last lookup was a hit
          failed     \* the current request ended in a reported error (restart limit)

vars == <<reqNo, url, scope, act, restarts, viaPass, stored, logCount, hitTaken, failed>>

\* what each subroutine may do; "none" = fall off the end (default action)
Legal == [ recv    |-> {"none", "lookup", "pass", "error", "restart"},
           hash    |-> {"none", "hash"},
           hit     |-> {"none", "deliver", "pass", "error", "restart"},
           miss    |-> {"none", "fetch", "pass", "error"},
           pass    |-> {"none", "pass", "error"},
           fetch   |-> {"none", "deliver", "deliver_ttl0", "deliver_uncacheable", "pass", "hit_for_pass", "error", "restart"},
           error   |-> {"none", "deliver", "restart"},
           deliver |-> {"none", "deliver", "restart"},
           log     |-> {"none", "deliver"} ]

Running == scope \in DOMAIN Legal

IsRestart(a) == a = "restart"
IsError(a)   == a = "error"

\* successor subroutine for an action that is neither restart nor error
Succ(s, a) ==
  CASE s = "recv"    -> "hash"
    [] s = "hash"    -> IF viaPass THEN "pass" ELSE IF url \in stored THEN "hit" ELSE "miss"
    [] s = "hit"     -> IF a = "pass" THEN "pass" ELSE "deliver"
    [] s = "miss"    -> IF a = "pass" THEN "pass" ELSE "fetch"
    [] s = "pass"    -> "fetch"
    [] s = "fetch"   -> "deliver"
    [] s = "error"   -> "deliver"
    [] s = "deliver" -> "log"
    [] s = "log"     -> "idle"

\* an object is stored when a looked-up (not passed) request is fetched and delivered cacheably
Stores(s, a) == /\ s = "fetch"
                /\ a \in {"none", "deliver"}
                /\ ~viaPass

Init == /\ reqNo = 0 /\ url = "-" /\ scope = "idle" /\ act = "init" /\ restarts = 0
        /\ viaPass = FALSE /\ stored = {} /\ logCount = 0 /\ hitTaken = FALSE /\ failed = FALSE

Start(u) == /\ scope = "idle" /\ reqNo < MaxReq
            /\ reqNo' = reqNo + 1 /\ url' = u /\ scope' = "recv" /\ act' = u
            /\ restarts' = 0 /\ viaPass' = FALSE /\ logCount' = 0 /\ hitTaken' = FALSE /\ failed' = FALSE
            /\ UNCHANGED stored

Step(a) ==
  /\ Running /\ a \in Legal[scope]
  /\ act' = a
  /\ UNCHANGED <<reqNo, url>>
  /\ logCount' = IF scope = "log" THEN logCount + 1 ELSE logCount
  /\ stored' = IF Stores(scope, a) THEN stored \cup {url} ELSE stored
  /\ IF IsRestart(a)
       THEN IF restarts = MaxRestarts
              THEN /\ scope' = "idle" /\ failed' = TRUE
                   /\ UNCHANGED <<restarts, viaPass, hitTaken>>
              ELSE /\ scope' = "recv" /\ restarts' = restarts + 1 /\ viaPass' = FALSE
                   /\ UNCHANGED <<hitTaken, failed>>
       ELSE /\ UNCHANGED <<restarts, failed>>
            /\ IF IsError(a)
                 THEN /\ scope' = "error" /\ UNCHANGED <<viaPass, hitTaken>>
                 ELSE /\ scope' = Succ(scope, a)
                      /\ viaPass' = IF scope = "recv" THEN (a = "pass")
                                    ELSE IF scope \in {"hit", "miss"} /\ a = "pass" THEN TRUE ELSE viaPass
                      /\ hitTaken' = IF scope = "hash" THEN (~viaPass /\ url \in stored) ELSE hitTaken

Next == (\E u \in URLs : Start(u)) \/ (\E a \in UNION {Legal[s] : s \in DOMAIN Legal} : Step(a))

Spec == Init /\ [][Next]_vars

\* ----- properties checked on every reachable state -----
TypeOK == /\ reqNo \in 0..MaxReq /\ restarts \in 0..MaxRestarts /\ logCount \in 0..1
          /\ scope \in DOMAIN Legal \cup {"idle"} /\ stored \subseteq URLs

RestartBound   == restarts <= MaxRestarts
LogAtMostOnce  == logCount <= 1
\* a request that is over and did not fail ran vcl_log exactly once, and it ran last
LogLast        == (scope = "idle" /\ reqNo > 0 /\ ~failed) => (logCount = 1 /\ act \in {"none", "deliver"})
FailedNoLog    == (scope = "idle" /\ failed) => logCount = 0
HitIffStored   == /\ (scope = "hit")  => (url \in stored /\ ~viaPass)
                  /\ (scope = "miss") => (url \notin stored /\ ~viaPass)
FirstNeverHits == (reqNo = 1 /\ restarts = 0) => scope # "hit"
FlagMatches    == (scope \in {"hit"}) => hitTaken

Inv == TypeOK /\ RestartBound /\ LogAtMostOnce /\ LogLast /\ FailedNoLog /\ HitIffStored /\ FirstNeverHits /\ FlagMatches
=============================================================================
